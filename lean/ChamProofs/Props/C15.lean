import ChamVerif.Sys.Cache
import ChamVerif.Gen.Tables
/-! # C15 — the on-disk module cache is sound and crash-safe -/
namespace ChamVerif.Sys.Cache

/-! ## directory lemmas -/

theorem get_del_same (fs : FS) (n : String) : (fs.del n).get n = none := by
  induction fs with
  | nil => rfl
  | cons e rest ih =>
    simp only [FS.del, FS.get] at ih ⊢
    by_cases h : e.1 = n
    · have h' : (e.1 != n) = false := by simp [h]
      simp only [List.filter_cons, h', Bool.false_eq_true, if_false]
      exact ih
    · have h' : (e.1 != n) = true := by simpa using h
      have h'' : (e.1 == n) = false := by simpa using h
      simp only [List.filter_cons, h', if_true, List.find?_cons, h'']
      exact ih

theorem get_del_ne (fs : FS) (n n' : String) (hne : n' ≠ n) : (fs.del n).get n' = fs.get n' := by
  induction fs with
  | nil => rfl
  | cons e rest ih =>
    simp only [FS.del, FS.get] at ih ⊢
    by_cases h : e.1 = n
    · have h1 : (e.1 == n') = false := by simp [h]; exact fun e => hne e.symm
      have h' : (e.1 != n) = false := by simp [h]
      simp only [List.filter_cons, h', Bool.false_eq_true, if_false, List.find?_cons, h1]
      exact ih
    · have h' : (e.1 != n) = true := by simpa using h
      simp only [List.filter_cons, h', if_true, List.find?_cons]
      cases hq : (e.1 == n')
      · simpa using ih
      · rfl

theorem get_set_same (fs : FS) (n : String) (c : Content) : (fs.set n c).get n = some c := by
  simp [FS.set, FS.get]

theorem get_set_ne (fs : FS) (n n' : String) (c : Content) (hne : n' ≠ n) : (fs.set n c).get n' = fs.get n' := by
  have h1 : (n == n') = false := by simp; exact fun e => hne e.symm
  have := get_del_ne fs n n' hne
  simp only [FS.set, FS.get, List.find?_cons, h1] at this ⊢
  exact this

/-! ## crash safety and two writers -/

/-- what a writer's temporary file holds, as a function of how far the writer got -/
def TmpOK (fs : FS) (w : Writer) : Prop :=
  match w.pc with
  | 1 => fs.get w.tmp = some .empty
  | 2 => fs.get w.tmp = some .header
  | 3 => fs.get w.tmp = some (.torn w.src)
  | 4 => fs.get w.tmp = some (.full w.src)
  | 5 => fs.get w.tmp = some (.full w.src)
  | _ => True

/-- the entry is what it was before, or the complete module of one of the writers -/
def EntryOK (entry : String) (init : Option Content) (s : St) : Prop :=
  s.fs.get entry = init ∨ s.fs.get entry = some (.full s.a.src) ∨ s.fs.get entry = some (.full s.b.src)

structure Inv (entry : String) (init : Option Content) (s : St) : Prop where
  entryOK : EntryOK entry init s
  tmpA : TmpOK s.fs s.a
  tmpB : TmpOK s.fs s.b

/-- the hypotheses on names: `mkstemp` hands out names that are unique and never the entry's -/
structure Names (entry : String) (s : St) : Prop where
  distinct : s.a.tmp ≠ s.b.tmp
  aNotEntry : s.a.tmp ≠ entry
  bNotEntry : s.b.tmp ≠ entry

theorem tmpOK_other (entry : String) (fs : FS) (w o : Writer) (hne : o.tmp ≠ w.tmp) (hoe : o.tmp ≠ entry) (ho : TmpOK fs o) :
    TmpOK (stepWriter entry fs w).1 o := by
  have key : (stepWriter entry fs w).1.get o.tmp = fs.get o.tmp := by
    unfold stepWriter
    split
    · rfl
    · split
      · exact get_set_ne _ _ _ _ hne
      · exact get_set_ne _ _ _ _ hne
      · exact get_set_ne _ _ _ _ hne
      · exact get_set_ne _ _ _ _ hne
      · rfl
      · split
        · rw [get_set_ne _ _ _ _ hoe, get_del_ne _ _ _ hne]
        · rfl
      · rfl
  unfold TmpOK at ho ⊢
  split <;> simp_all

theorem tmpOK_self (entry : String) (fs : FS) (w : Writer) (hw : TmpOK fs w) :
    TmpOK (stepWriter entry fs w).1 (stepWriter entry fs w).2 := by
  obtain ⟨src, tmp, pc, alive⟩ := w
  cases alive
  · simpa [stepWriter] using hw
  · rcases pc with _|_|_|_|_|_|pc
    · simp [stepWriter, TmpOK, get_set_same]
    · simp [stepWriter, TmpOK, get_set_same]
    · simp [stepWriter, TmpOK, get_set_same]
    · simp [stepWriter, TmpOK, get_set_same]
    · simpa [stepWriter, TmpOK] using hw
    · simp only [stepWriter, Bool.not_true, Bool.false_eq_true, if_false]
      cases hg : fs.get tmp with
      | none => simpa [TmpOK, hg] using hw
      | some c => simp [TmpOK]
    · simp [stepWriter, TmpOK]

theorem entry_after_step (entry : String) (fs : FS) (w : Writer) (hwe : w.tmp ≠ entry) (hw : TmpOK fs w) :
    (stepWriter entry fs w).1.get entry = fs.get entry ∨ (stepWriter entry fs w).1.get entry = some (.full w.src) := by
  have hne : entry ≠ w.tmp := fun e => hwe e.symm
  unfold stepWriter
  split
  · exact Or.inl rfl
  · split
    · exact Or.inl (get_set_ne _ _ _ _ hne)
    · exact Or.inl (get_set_ne _ _ _ _ hne)
    · exact Or.inl (get_set_ne _ _ _ _ hne)
    · exact Or.inl (get_set_ne _ _ _ _ hne)
    · exact Or.inl rfl
    · rename_i h5
      split
      · rename_i c hc
        simp only [TmpOK, h5] at hw
        rw [hw] at hc
        cases hc
        exact Or.inr (get_set_same _ _ _)
      · exact Or.inl rfl
    · exact Or.inl rfl

theorem src_tmp_const (entry : String) (fs : FS) (w : Writer) :
    (stepWriter entry fs w).2.src = w.src ∧ (stepWriter entry fs w).2.tmp = w.tmp := by
  unfold stepWriter
  split
  · exact ⟨rfl, rfl⟩
  · split <;> try exact ⟨rfl, rfl⟩
    split <;> exact ⟨rfl, rfl⟩

theorem inv_step (entry : String) (init : Option Content) (s : St) (ev : Ev) (hn : Names entry s) (hi : Inv entry init s) :
    Inv entry init (step entry s ev) ∧ Names entry (step entry s ev) := by
  cases ev with
  | stepA =>
    have hc := src_tmp_const entry s.fs s.a
    refine ⟨⟨?_, ?_, ?_⟩, ⟨?_, ?_, ?_⟩⟩
    · show EntryOK entry init ⟨(stepWriter entry s.fs s.a).1, (stepWriter entry s.fs s.a).2, s.b⟩
      unfold EntryOK
      simp only [hc.1]
      rcases entry_after_step entry s.fs s.a hn.aNotEntry hi.tmpA with h | h
      · rw [h]; exact hi.entryOK
      · exact Or.inr (Or.inl h)
    · exact tmpOK_self entry s.fs s.a hi.tmpA
    · exact tmpOK_other entry s.fs s.a s.b (fun e => hn.distinct e.symm) hn.bNotEntry hi.tmpB
    · show (stepWriter entry s.fs s.a).2.tmp ≠ s.b.tmp
      rw [hc.2]; exact hn.distinct
    · show (stepWriter entry s.fs s.a).2.tmp ≠ entry
      rw [hc.2]; exact hn.aNotEntry
    · exact hn.bNotEntry
  | stepB =>
    have hc := src_tmp_const entry s.fs s.b
    refine ⟨⟨?_, ?_, ?_⟩, ⟨?_, ?_, ?_⟩⟩
    · show EntryOK entry init ⟨(stepWriter entry s.fs s.b).1, s.a, (stepWriter entry s.fs s.b).2⟩
      unfold EntryOK
      simp only [hc.1]
      rcases entry_after_step entry s.fs s.b hn.bNotEntry hi.tmpB with h | h
      · rw [h]; exact hi.entryOK
      · exact Or.inr (Or.inr h)
    · exact tmpOK_other entry s.fs s.b s.a hn.distinct hn.aNotEntry hi.tmpA
    · exact tmpOK_self entry s.fs s.b hi.tmpB
    · show s.a.tmp ≠ (stepWriter entry s.fs s.b).2.tmp
      rw [hc.2]; exact hn.distinct
    · exact hn.aNotEntry
    · show (stepWriter entry s.fs s.b).2.tmp ≠ entry
      rw [hc.2]; exact hn.bNotEntry
  | crashA => exact ⟨⟨hi.entryOK, hi.tmpA, hi.tmpB⟩, ⟨hn.distinct, hn.aNotEntry, hn.bNotEntry⟩⟩
  | crashB => exact ⟨⟨hi.entryOK, hi.tmpA, hi.tmpB⟩, ⟨hn.distinct, hn.aNotEntry, hn.bNotEntry⟩⟩

theorem inv_run (entry : String) (init : Option Content) : ∀ (evs : List Ev) (s : St), Names entry s → Inv entry init s →
    Inv entry init (run entry s evs) := by
  intro evs
  induction evs with
  | nil => intro s _ hi; exact hi
  | cons ev rest ih =>
    intro s hn hi
    obtain ⟨hi', hn'⟩ := inv_step entry init s ev hn hi
    exact ih _ hn' hi'

/-- **C15 (crash-safe, two writers)**: start two `build` calls for the same entry — with unique temporary names — and let
them run under *any* schedule, with *any* of them crashing at *any* point (the event list is arbitrary and of any
length): afterwards `get` finds no entry, the entry that was there before, or the complete module of one of the
writers.  Never an empty, header-only or torn file. -/
theorem C15_crash_safe (entry : String) (srcA srcB : Nat) (tmpA tmpB : String) (fs0 : FS) (evs : List Ev)
    (hd : tmpA ≠ tmpB) (ha : tmpA ≠ entry) (hb : tmpB ≠ entry) :
    let s0 : St := { fs := fs0, a := { src := srcA, tmp := tmpA }, b := { src := srcB, tmp := tmpB } }
    get entry (run entry s0 evs).fs = get entry fs0 ∨ get entry (run entry s0 evs).fs = some (.full srcA) ∨
      get entry (run entry s0 evs).fs = some (.full srcB) := by
  intro s0
  have hi : Inv entry (fs0.get entry) s0 := ⟨Or.inl rfl, by simp [TmpOK, s0], by simp [TmpOK, s0]⟩
  have hn : Names entry s0 := ⟨hd, ha, hb⟩
  have h := (inv_run entry (fs0.get entry) evs s0 hn hi).entryOK
  have hsrc : ∀ (evs : List Ev) (s : St), (run entry s evs).a.src = s.a.src ∧ (run entry s evs).b.src = s.b.src := by
    intro evs
    induction evs with
    | nil => intro s; exact ⟨rfl, rfl⟩
    | cons ev rest ih =>
      intro s
      have := ih (step entry s ev)
      simp only [run, List.foldl_cons] at this ⊢
      cases ev with
      | stepA => exact ⟨this.1.trans (src_tmp_const entry s.fs s.a).1, this.2⟩
      | stepB => exact ⟨this.1, this.2.trans (src_tmp_const entry s.fs s.b).1⟩
      | crashA => exact this
      | crashB => exact this
  unfold EntryOK at h
  rw [(hsrc evs s0).1, (hsrc evs s0).2] at h
  exact h

/-- a writer that is never interrupted stores its complete module -/
theorem C15_build_stores (entry : String) (src : Nat) (tmp : String) (fs0 : FS) (o : Writer) (h : tmp ≠ entry) :
    let s0 : St := { fs := fs0, a := { src := src, tmp := tmp }, b := o }
    get entry (run entry s0 [.stepA, .stepA, .stepA, .stepA, .stepA, .stepA]).fs = some (.full src) := by
  intro s0
  have hne : entry ≠ tmp := fun e => h e.symm
  simp [run, step, stepWriter, s0, get, get_set_same, get_set_ne, get_del_same, get_del_ne, hne]

/-- why unique temporary names matter: with a *shared* temporary name a second writer's `mkstemp` truncates the file the
first is about to rename, and a truncated entry is stored -/
theorem C15_shared_tmp_counterexample :
    let s0 : St := { fs := [], a := { src := 1, tmp := "x.tmp" }, b := { src := 1, tmp := "x.tmp" } }
    get "e.py" (run "e.py" s0 [.stepA, .stepA, .stepA, .stepA, .stepA, .stepB, .stepA]).fs = some .empty := by
  decide +kernel

/-! ## the cache key -/

theorem proj_subset (small big : List String) (c1 c2 : Config) (hs : ∀ k ∈ small, k ∈ big)
    (h : proj big c1 = proj big c2) : proj small c1 = proj small c2 := by
  unfold proj at h ⊢
  apply List.map_congr_left
  intro k hk
  have hb := hs k hk
  have : ∀ (l : List String), k ∈ l → l.map c1.val = l.map c2.val → c1.val k = c2.val k := by
    intro l
    induction l with
    | nil => intro h; cases h
    | cons x xs ih =>
      intro hm he
      simp only [List.map_cons, List.cons.injEq] at he
      rcases List.mem_cons.mp hm with rfl | hm'
      · exact he.1
      · exact ih hm' he.2
  exact this big hb h

/-- **C15 (sound key)**: if the key is an injective function of the keyed options and the generated code depends only
on the influencing options, and every influencing option is keyed, then equal keys mean equal generated code —
a stored module is reused only for a template that compiles to the same code. -/
theorem C15_sound {K M : Type} (keyed infl : List String) (hash : List (Option String) → K) (compile : Config → M)
    (hinj : Function.Injective hash)
    (hdep : ∀ c1 c2, proj infl c1 = proj infl c2 → compile c1 = compile c2)
    (hcov : ∀ k ∈ infl, k ∈ keyed) (c1 c2 : Config)
    (hk : hash (proj keyed c1) = hash (proj keyed c2)) : compile c1 = compile c2 :=
  hdep c1 c2 (proj_subset infl keyed c1 c2 hcov (hinj hk))

/-- options that are known to influence compilation without being keyed (finding D-15b): customised by replacing
callables/objects, for which no canonical text exists -/
def knownUnkeyed : List String := ["tokenizer", "expression_types", "default_marker"]

/-- **C15 (the key covers what influences compilation)** — partial: on the option lists observed on this run (flip each
constructor option, watch the digest / the generated code), every influencing option is keyed, except the three of
D-15b.  The full statement (`knownUnkeyed` empty) is false today: `C15_keyed_covers_counterexample`. -/
theorem C15_keyed_covers_partial :
    ∀ k ∈ ChamVerif.Gen.cacheInfluencing, k ∈ ChamVerif.Gen.cacheKeyed ∨ k ∈ knownUnkeyed := by decide +kernel

theorem C15_keyed_covers_counterexample :
    "tokenizer" ∈ ChamVerif.Gen.cacheInfluencing ∧ "tokenizer" ∉ ChamVerif.Gen.cacheKeyed := by decide +kernel

/-- **C15 (the key separates the option *values*)**: over all pairs of probed values of every option (not only one flip
per option), two values that give different code have different keys — except for the options of D-15b -/
theorem C15_key_separates_values :
    ∀ u ∈ ChamVerif.Gen.cacheUnsoundValuePairs, ∃ k ∈ knownUnkeyed, (k ++ ": ").isPrefixOf u = true := by decide +kernel

/-- nothing is keyed that the probe did not flip, and the control option (read by nothing) is neither keyed nor influencing -/
theorem C15_probe_sane :
    "debug_marker" ∉ ChamVerif.Gen.cacheInfluencing ∧ "debug_marker" ∉ ChamVerif.Gen.cacheKeyed ∧
    "encoding" ∉ ChamVerif.Gen.cacheInfluencing := by decide +kernel

end ChamVerif.Sys.Cache

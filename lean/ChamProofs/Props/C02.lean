import ChamVerif.Escape
import ChamVerif.Gen.Tables
/-! # C02 — inserted values are escaped and cannot change document structure

Theorems about the emitted `__quote` as modelled in `ChamVerif/Escape.lean`; the
per-site `(quote, entity)` pairs are tied to the code by `Gen.Tables` (probe observations,
see `C02_sites` at the end of this file) and by the end-to-end correspondence. -/
namespace ChamVerif

theorem replace1_flatMap (c : Nat) (r : Str) (f : Nat → Str) (s : Str) :
    replace1 c r (s.flatMap f) = s.flatMap (fun x => replace1 c r (f x)) := by
  simp [replace1, List.flatMap_assoc]

/-- pointwise: the chain of replacements applied to one character -/
theorem chain_char (st : Site) (c : Nat) :
    (match st.q with
     | none => replace1 62 gtE (replace1 60 ltE (rep1 38 ampE c))
     | some q => replace1 q st.qe (replace1 62 gtE (replace1 60 ltE (rep1 38 ampE c))))
    = escChar st.q st.qe c := by
  by_cases h38 : c = 38
  · subst h38; cases st <;> decide
  · by_cases h60 : c = 60
    · subst h60; cases st <;> decide
    · by_cases h62 : c = 62
      · subst h62; cases st <;> decide
      · cases st <;>
          simp [Site.q, Site.qe, escChar, rep1, replace1, h38, h60, h62, eq_comm]

/-- **the chain of `str.replace` calls is a per-character map** (no replacement re-reads
the output of an earlier one), for every site and every string -/
theorem escapeSeq_eq_map (st : Site) (s : Str) : escapeSeq st.q st.qe s = escapeMap st.q st.qe s := by
  unfold escapeSeq escapeMap
  have h1 : replace1 38 ampE s = s.flatMap (rep1 38 ampE) := rfl
  have := chain_char st
  cases st <;> simp only [Site.q, Site.qe, h1, replace1_flatMap] at this ⊢ <;> congr 1 <;> funext c <;>
    exact this c

theorem needsEscape_false_map (st : Site) (s : Str) (h : needsEscape s = false) (hq : st ≠ .text) :
    escapeMap st.q st.qe s = s := by
  unfold escapeMap
  induction s with
  | nil => rfl
  | cons c s ih =>
    simp only [needsEscape, List.any_cons, Bool.or_eq_false_iff] at h
    have ih' := ih (by simpa [needsEscape] using h.2)
    simp only [List.flatMap_cons, ih']
    obtain ⟨⟨⟨⟨h38, h60⟩, h62⟩, h34⟩, h39⟩ := h.1
    have e : escChar st.q st.qe c = [c] := by
      have h38' : c ≠ 38 := by simpa using h38
      have h60' : c ≠ 60 := by simpa using h60
      have h62' : c ≠ 62 := by simpa using h62
      have h34' : c ≠ 34 := by simpa using h34
      have h39' : c ≠ 39 := by simpa using h39
      cases st
      · exact absurd rfl hq
      · simp [escChar, Site.q, h38', h60', h62']; intro hh; exact absurd hh.symm h34'
      · simp [escChar, Site.q, h38', h60', h62']; intro hh; exact absurd hh.symm h39'
      · simp [escChar, Site.q, h38', h60', h62']
    rw [e]; rfl

/-- characters of the escaped image of one character -/
theorem escChar_no_raw (st : Site) (c x : Nat) (hx : x ∈ escChar st.q st.qe c) :
    x ≠ 60 ∧ x ≠ 62 ∧ (st.q = some x → x = 0 ∨ False) := by
  unfold escChar at hx
  by_cases h38 : c = 38
  · simp only [h38, if_true, ampE] at hx
    cases st <;> simp [Site.q] <;> simp at hx <;> omega
  · by_cases h60 : c = 60
    · simp only [h60, ltE] at hx
      cases st <;> simp [Site.q] <;> simp at hx <;> omega
    · by_cases h62 : c = 62
      · simp only [h62, gtE] at hx
        cases st <;> simp [Site.q] <;> simp at hx <;> omega
      · simp only [h38, h60, h62, if_false] at hx
        by_cases hq : st.q = some c
        · simp only [hq, if_true] at hx
          cases st <;> simp [Site.q, Site.qe, quotE, aposE, nulE] at hq hx ⊢ <;> omega
        · simp only [hq, if_false, List.mem_singleton] at hx
          subst hx
          refine ⟨h60, h62, ?_⟩
          intro h; exact absurd h hq

/-- **C02 (no raw markup)**: at every site, for every string: no `<`, no `>`, and in a quoted
attribute no occurrence of the attribute's own quote character. -/
theorem C02_no_raw (st : Site) (s : Str) :
    60 ∉ st.quote s ∧ 62 ∉ st.quote s ∧ (st = .dq → 34 ∉ st.quote s) ∧ (st = .sq → 39 ∉ st.quote s) := by
  unfold Site.quote quoteStr
  by_cases hn : needsEscape s = true
  · simp only [hn, if_true, escapeSeq_eq_map]
    have key : ∀ x, x ∈ escapeMap st.q st.qe s → x ≠ 60 ∧ x ≠ 62 ∧ (st.q = some x → x = 0 ∨ False) := by
      intro x hx
      simp only [escapeMap, List.mem_flatMap] at hx
      obtain ⟨c, _, hc⟩ := hx
      exact escChar_no_raw st c x hc
    refine ⟨fun h => (key 60 h).1 rfl, fun h => (key 62 h).2.1 rfl, ?_, ?_⟩
    · intro hst h; subst hst
      have := (key 34 h).2.2 rfl; simp at this
    · intro hst h; subst hst
      have := (key 39 h).2.2 rfl; simp at this
  · have hf : needsEscape s = false := by simpa using hn
    simp only [hf, Bool.false_eq_true, if_false]
    simp only [needsEscape, List.any_eq_false, Bool.or_eq_true, beq_iff_eq, not_or] at hf
    exact ⟨fun h => (hf 60 h).1.1.1.2 rfl, fun h => (hf 62 h).1.1.2 rfl, fun _ h => (hf 34 h).1.2 rfl, fun _ h => (hf 39 h).2 rfl⟩

theorem unescape_escChar (st : Site) (c : Nat) (r : Str) :
    unescape (escChar st.q st.qe c ++ r) = c :: unescape r := by
  unfold escChar
  by_cases h38 : c = 38
  · subst h38; simp [ampE, unescape]
  · by_cases h60 : c = 60
    · subst h60; simp [ltE, unescape]
    · by_cases h62 : c = 62
      · subst h62; simp [gtE, unescape]
      · by_cases hq : st.q = some c
        · cases st <;> simp [Site.q] at hq
          · subst hq; simp [Site.q, Site.qe, nulE, unescape]
          · subst hq; simp [Site.q, Site.qe, quotE, unescape]
          · subst hq; simp [Site.q, Site.qe, aposE, unescape]
        · simp only [h38, h60, h62, hq, if_false, List.singleton_append]
          rw [unescape.eq_def]
          split <;> simp_all

theorem unescape_plain (s : Str) (h : 38 ∉ s) : unescape s = s := by
  induction s with
  | nil => simp [unescape]
  | cons c s ih =>
    have hc : c ≠ 38 := fun e => h (by simp [e])
    have hs : 38 ∉ s := fun e => h (by simp [e])
    rw [unescape.eq_def]
    split <;> simp_all

/-- **C02 (round trip)**: un-escaping the inserted region gives back the string. -/
theorem C02_roundtrip (st : Site) (s : Str) : unescape (st.quote s) = s := by
  unfold Site.quote quoteStr
  by_cases hn : needsEscape s = true
  · simp only [hn, if_true, escapeSeq_eq_map]
    induction s with
    | nil => simp [escapeMap, unescape]
    | cons c s ih =>
      simp only [escapeMap, List.flatMap_cons]
      rw [unescape_escChar]
      congr 1
      clear ih hn
      induction s with
      | nil => simp [unescape]
      | cons d s ih2 => simp only [List.flatMap_cons]; rw [unescape_escChar, ih2]
  · have hf : needsEscape s = false := by simpa using hn
    simp only [hf, Bool.false_eq_true, if_false]
    apply unescape_plain
    simp only [needsEscape, List.any_eq_false, Bool.or_eq_true, beq_iff_eq, not_or] at hf
    exact fun h => (hf 38 h).1.1.1.1 rfl

theorem ampOK_esc_append (st : Site) (c : Nat) (r : Str) (hr : ampOK r = true) :
    ampOK (escChar st.q st.qe c ++ r) = true := by
  by_cases h38 : c = 38
  · simp [escChar, h38, ampE, ampOK, hr, ltE, gtE, quotE, aposE, nulE]
  · by_cases h60 : c = 60
    · simp [escChar, h60, ltE, ampOK, hr, ampE, gtE, quotE, aposE, nulE]
    · by_cases h62 : c = 62
      · simp [escChar, h62, gtE, ampOK, hr, ampE, ltE, quotE, aposE, nulE]
      · by_cases hq : st.q = some c
        · cases st <;> simp [Site.q] at hq <;> subst hq <;>
            simp [escChar, Site.q, Site.qe, ampOK, hr, ampE, ltE, gtE, quotE, aposE, nulE]
        · simp only [escChar, h38, h60, h62, hq, if_false, List.singleton_append]
          rw [ampOK.eq_def]
          split
          · simp_all
          · simp_all
          · simp_all

/-- every `&` in the escaped text begins an entity -/
theorem ampOK_escapeMap (st : Site) (s : Str) : ampOK (escapeMap st.q st.qe s) = true := by
  induction s with
  | nil => rfl
  | cons c s ih =>
    simp only [escapeMap, List.flatMap_cons] at ih ⊢
    exact ampOK_esc_append st c _ ih

theorem C02_amp_entities (st : Site) (s : Str) : ampOK (st.quote s) = true := by
  unfold Site.quote quoteStr
  by_cases hn : needsEscape s = true
  · simp only [hn, if_true, escapeSeq_eq_map]; exact ampOK_escapeMap st s
  · have hf : needsEscape s = false := by simpa using hn
    simp only [hf, Bool.false_eq_true, if_false]
    simp only [needsEscape, List.any_eq_false, Bool.or_eq_true, beq_iff_eq, not_or] at hf
    have h38 : 38 ∉ s := fun h => (hf 38 h).1.1.1.1 rfl
    clear hf hn
    induction s with
    | nil => rfl
    | cons c s ih =>
      have hc : c ≠ 38 := fun e => h38 (by simp [e])
      have hs : 38 ∉ s := fun e => h38 (by simp [e])
      rw [ampOK.eq_def]
      split
      · simp_all
      · rename_i heq; simp only [List.cons.injEq] at heq; rw [← heq.2]; exact ih hs
      · simp_all

/-- **C02 (values)**: whatever the value class, what `__quote` returns is nothing, the static
default, the unescaped opt-outs (`num`: exact int/float, `html`: `__html__`), or the escaped
string form. -/
theorem C02_value (st : Site) (d : Option Str) (v : QIn) :
    quoteVal st.q st.qe d v = none ∨ quoteVal st.q st.qe d v = d
    ∨ (∃ r, v = .num r ∧ quoteVal st.q st.qe d v = some r)
    ∨ (∃ m, v = .html m ∧ quoteVal st.q st.qe d v = some m)
    ∨ (∃ s, quoteVal st.q st.qe d v = some (st.quote s)) := by
  cases v with
  | none => left; rfl
  | marker => right; left; rfl
  | bytes b => right; right; right; right; exact ⟨b, rfl⟩
  | str s => right; right; right; right; exact ⟨s, rfl⟩
  | num r => right; right; left; exact ⟨r, rfl, rfl⟩
  | html m => right; right; right; left; exact ⟨m, rfl, rfl⟩
  | other sf tr =>
    match tr with
    | none => right; right; right; right; exact ⟨sf, rfl⟩
    | some none => left; rfl
    | some (some t) => right; right; right; right; exact ⟨t, rfl⟩

/-- non-vacuity / concrete instance -/
example : Site.dq.quote (Str.ofString "a<\"&'>") = Str.ofString "a&lt;&quot;&amp;'&gt;" := by decide

end ChamVerif

/-! ## The tie: every insertion site of the *current* code escapes as its class requires

`Gen.escSites` is observed on every run by rendering each probe character through one probe
template per site with the real engine (`harness/extract_tables.py`). -/
namespace ChamVerif

/-- which escaping class the property requires at each site; `some none` = explicit opt-out -/
def siteKind : String → Option (Option Site)
  | "text_interp" | "content" | "content_text_kw" | "replace" | "comment_interp"
  | "string_in_content" | "i18n_name_block" => some (some .text)
  | "dq_attr_interp" | "tal_attr_new" | "tal_attr_dq" | "dict_attr" => some (some .dq)
  | "sq_attr_interp" | "tal_attr_sq" => some (some .sq)
  | "cdata_interp" | "structure_content" | "structure_interp" | "text_mode" => some none
  | _ => none

def requiredSites : List String :=
  ["text_interp", "content", "content_text_kw", "replace", "comment_interp", "string_in_content",
   "i18n_name_block", "dq_attr_interp", "tal_attr_new", "tal_attr_dq", "dict_attr", "sq_attr_interp",
   "tal_attr_sq", "cdata_interp", "structure_content", "structure_interp", "text_mode"]

def expectedImage (k : Option Site) (c : Nat) : Str :=
  match k with
  | some st => st.quote [c]
  | none => [c]

def siteOK (row : String × List (Nat × List Nat)) : Bool :=
  match siteKind row.1 with
  | none => false
  | some k => Gen.escProbeAlphabet.all (fun c =>
      ((row.2.find? (·.1 == c)).map (·.2)).getD [c] == expectedImage k c)

/-- **C02 (sites)**: at every probed insertion site of the live code, every probe character is
rendered exactly as the model's `Site.quote` (or untouched, for the opt-outs) says. -/
theorem C02_sites : Gen.escSites.all siteOK = true := by decide +kernel

theorem C02_sites_complete : requiredSites.all (fun n => Gen.escSites.any (·.1 == n)) = true := by
  decide +kernel

end ChamVerif

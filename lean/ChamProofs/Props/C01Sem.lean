import ChamVerif.Build
import ChamVerif.Eval
/-! # C01 — `default` keeps the original markup, `None` removes it

`tal:content` / `tal:replace` are built by `_make_content_node`; these theorems evaluate that node shape in the
interpreter model for an arbitrary expression, default content, scope and state. -/
namespace ChamVerif

/-- the state after `__cache_<id> = value`: the activation's cache holds the value -/
def cacheSet (id : Nat) (v : Val) (s : RState) : RState :=
  { s with env := match s.env.frames with
    | fr :: rest => { s.env with frames := { fr with cache := (id, v) :: fr.cache.filter (·.1 != id) } :: rest }
    | [] => { s.env with frames := [{ ({} : Frame) with cache := (id, v) :: ({} : Frame).cache.filter (·.1 != id) }] } }

theorem getCached_cacheSet (id : Nat) (v : Val) (s : RState) (x : XState) :
    getCached (cacheSet id v s).env id x = .ok v x := by
  unfold getCached cacheSet Env.topFrame
  cases h : s.env.frames <;> simp [pure]

theorem bind_pure_unit (m : RM Unit) (s : RState) : (m >>= fun _ => (pure () : RM Unit)) s = m s := by
  simp only [bind]
  cases m s <;> rfl

theorem enVal_marker (cfg : ECfg) (al : List (Str × Val)) (s : RState) : enVal cfg al .marker s = .ok .dflt s := by
  simp [enVal, liftX, evalEN, pure]

theorem modFrame_cache (id : Nat) (v : Val) (s : RState) :
    modFrame (fun fr => { fr with cache := (id, v) :: fr.cache.filter (·.1 != id) }) s = .ok () (cacheSet id v s) := by
  unfold modFrame modEnv mModify cacheSet
  cases h : s.env.frames <;> simp [h]

theorem cond_is_marker (cfg : ECfg) (al : List (Str × Val)) (id : Nat) (v : Val) (s : RState) (b : Bool)
    (hb : Val.pyIs v .dflt = .ok b) (hv : ∀ c, v ≠ .excClass c) :
    liftX (fun env => evalCond cfg al env 16 (CondE.e ((EN.ref id).binop NOp.is_ EN.marker))) (cacheSet id v s) =
      .ok (.bool b) (cacheSet id v s) := by
  simp only [liftX, evalCond, evalEN, bind, getCached_cacheSet, pure]
  cases v <;> simp_all [xLiftR]

/-- **C01 (`default` keeps the original markup)**: if the expression of `tal:content` / `tal:replace` evaluates to the
`default` marker, the element renders exactly its original content (`d`), evaluated once, in the state after the
expression was evaluated. -/
theorem C01_default_keeps (cfg : ECfg) (al : List (Str × Val)) (f id : Nat) (expr : Tok) (d : Node) (st tr : Bool)
    (s s1 : RState)
    (hv : enVal cfg ((lit "default", Val.dflt) :: al) (.value expr) s = .ok .dflt s1) :
    eval cfg al (f + 5) (makeContentNode id expr (some d) st tr) s =
      eval cfg ((lit "default", Val.dflt) :: al) f d (cacheSet id .dflt s1) := by
  simp only [makeContentNode, eval, evalDefine]
  have hforM : ∀ (g : Nat × EN → RM Unit) (x : Nat × EN), [x].forM g = (g x >>= fun _ => pure ()) := fun _ _ => rfl
  have hpure : ∀ (t : RState), (pure () : RM Unit) t = .ok () t := fun _ => rfl
  simp only [bind, enVal_marker, hforM, hv, modFrame_cache, hpure]
  rw [cond_is_marker cfg _ id .dflt s1 true rfl (by intro c h; cases h)]
  simp only [vTruthy, mLiftR, Val.truthy, pure, if_true]
  cases eval cfg ((lit "default", Val.dflt) :: al) f d (cacheSet id Val.dflt s1) <;> rfl

/-- **C01 (any other value replaces the content)**: if the expression evaluates to a value `v` that is not the `default`
marker, the original content is *not* evaluated and what is emitted is the escaped (or, with `structure`, the converted)
string form of `v` — nothing at all when that form is `None`. -/
theorem C01_content_value (cfg : ECfg) (al : List (Str × Val)) (f id : Nat) (expr : Tok) (d : Node) (st : Bool)
    (s s1 : RState) (v : Val) (q : QIn)
    (hv : enVal cfg ((lit "default", Val.dflt) :: al) (.value expr) s = .ok v s1)
    (hnd : Val.pyIs v .dflt = .ok false) (hne : ∀ c, v ≠ .excClass c) (hq : toQIn cfg v = .ok q) :
    eval cfg al (f + 6) (makeContentNode id expr (some d) st false) s =
      (liftX (fun env => offerCall cfg env v) >>= fun _ =>
        match (if !st then quoteVal Site.content.q Site.content.qe none q else convertVal q) with
        | some t => emit t
        | none => pure ()) (cacheSet id v s1) := by
  simp only [makeContentNode, eval, evalDefine]
  have hforM : ∀ (g : Nat × EN → RM Unit) (x : Nat × EN), [x].forM g = (g x >>= fun _ => pure ()) := fun _ _ => rfl
  have hpure : ∀ (t : RState), (pure () : RM Unit) t = .ok () t := fun _ => rfl
  simp only [bind, enVal_marker, hforM, hv, modFrame_cache, hpure]
  rw [cond_is_marker cfg _ id v s1 false hnd hne]
  simp only [vTruthy, mLiftR, Val.truthy, pure, Bool.false_eq_true, if_false]
  have href : enVal cfg ((lit "default", Val.dflt) :: al) (.ref id) (cacheSet id v s1) = .ok v (cacheSet id v s1) := by
    simp [enVal, liftX, evalEN, getCached_cacheSet]
  simp only [href, hq]
  cases liftX (fun env => offerCall cfg env v) (cacheSet id v s1) with
  | ok u s2 => cases (if (!st) = true then quoteVal Site.content.q Site.content.qe none q else convertVal q) <;>
      (simp only []; first | rfl | (cases emit _ s2 <;> rfl))
  | raised ex s2 => rfl
  | unsupported w => rfl

/-- **C01 (`None` removes)**: if the expression evaluates to `None` (`nothing`), nothing is emitted: the output stack is
what it was after evaluating the expression, and the original content is not evaluated -/
theorem C01_none_removes (cfg : ECfg) (al : List (Str × Val)) (f id : Nat) (expr : Tok) (d : Node) (st : Bool)
    (s s1 : RState)
    (hv : enVal cfg ((lit "default", Val.dflt) :: al) (.value expr) s = .ok .none s1) :
    eval cfg al (f + 6) (makeContentNode id expr (some d) st false) s = .ok () (cacheSet id .none s1) ∧
    (cacheSet id .none s1).streams = s1.streams := by
  refine ⟨?_, rfl⟩
  rw [C01_content_value cfg al f id expr d st s s1 .none .none hv rfl (by intro c h; cases h) rfl]
  cases st <;> rfl

end ChamVerif

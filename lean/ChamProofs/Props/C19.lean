import ChamVerif.Pipeline
/-! # C19 — strict mode changes only *when* an invalid expression is reported -/
namespace ChamVerif

theorem laxFilter_ok (r : CRes Unit) (h : laxFilter true r = .ok ()) : laxFilter false r = .ok () := by
  cases r with
  | ok u => rfl
  | error err =>
    cases err with
    | template cls msg tok => simp [laxFilter] at h
    | templateNoSrc cls msg t => simp [laxFilter] at h
    | crash cls => simp [laxFilter] at h

theorem compileEN_strict_ok_lax (tc : TCfg) : ∀ (f : Nat) (e : EN),
    compileEN tc true f e = .ok () → compileEN tc false f e = .ok () := by
  intro f
  induction f with
  | zero => intro e _; rfl
  | succ f ih =>
    intro e h
    cases e with
    | value tok | valueD tok d | subst tok a b c | boolean tok a b =>
      simp only [compileEN] at h ⊢
      exact laxFilter_ok _ h
    | interp tok a b c required tr =>
      simp only [compileEN] at h ⊢
      exact laxFilter_ok _ h
    | replace e s | translate m e | negate e => simp only [compileEN] at h ⊢; exact ih e h
    | binop l op r =>
      simp only [compileEN] at h ⊢
      cases hl : compileEN tc true f l with
      | ok u =>
        simp only [hl, bind, Except.bind] at h
        simp only [ih l hl, bind, Except.bind]
        exact ih r h
      | error err => simp [hl, bind, Except.bind] at h
    | const s | ref i | marker | cancelMarker | staticDict k | pyName n => rfl

theorem forM_ok_of {α} (g1 g2 : α → CRes Unit) : ∀ (xs : List α),
    (∀ x ∈ xs, g1 x = .ok () → g2 x = .ok ()) → xs.forM g1 = .ok () → xs.forM g2 = .ok () := by
  intro xs
  induction xs with
  | nil => intro _ _; rw [List.forM.eq_def]; rfl
  | cons x xs ih =>
    intro hp h
    rw [List.forM.eq_def] at h ⊢
    simp only [bind, Except.bind] at h ⊢
    cases h1 : g1 x with
    | ok u =>
      simp only [h1] at h
      rw [hp x (by simp) h1]
      exact ih (fun y hy => hp y (by simp [hy])) h
    | error e => simp [h1] at h

theorem compileCond_strict_ok_lax (tc : TCfg) : ∀ (f : Nat) (c : CondE),
    compileCond tc true f c = .ok () → compileCond tc false f c = .ok () := by
  intro f
  induction f with
  | zero => intro c _; rfl
  | succ f ih =>
    intro c h
    cases c with
    | e x => simp only [compileCond] at h ⊢; exact compileEN_strict_ok_lax tc 16 x h
    | and_ xs => simp only [compileCond] at h ⊢; exact forM_ok_of _ _ xs (fun x _ hx => ih x hx) h
    | or_ xs => simp only [compileCond] at h ⊢; exact forM_ok_of _ _ xs (fun x _ hx => ih x hx) h

theorem bind_ok {α β} (m : CRes α) (f : α → CRes β) (b : β) (h : (m >>= f) = .ok b) :
    ∃ a, m = .ok a ∧ f a = .ok b := by
  cases m with
  | ok a => exact ⟨a, rfl, h⟩
  | error e => simp [bind, Except.bind] at h

theorem foldlM_ok_of {α σ} (g1 g2 : σ → α → CRes σ) : ∀ (xs : List α) (s s' : σ),
    (∀ s x t, x ∈ xs → g1 s x = .ok t → g2 s x = .ok t) → xs.foldlM g1 s = .ok s' → xs.foldlM g2 s = .ok s' := by
  intro xs
  induction xs with
  | nil => intro s s' _ h; simpa using h
  | cons x xs ih =>
    intro s s' hp h
    simp only [List.foldlM_cons] at h ⊢
    obtain ⟨t, h1, h2⟩ := bind_ok _ _ _ h
    rw [hp s x t (by simp) h1]
    exact ih t s' (fun s y t' hy => hp s y t' (by simp [hy])) h2

/-- whatever the strict compile accepts, the non-strict compile accepts with the same result -/
theorem checkNode_strict_ok_lax (tc : TCfg) : ∀ (f : Nat),
    (∀ tr n tr', checkNode tc true f tr n = .ok tr' → checkNode tc false f tr n = .ok tr') ∧
    (∀ tr ns tr', checkNodes tc true f tr ns = .ok tr' → checkNodes tc false f tr ns = .ok tr') := by
  intro f
  induction f with
  | zero => exact ⟨fun tr n tr' h => by simpa [checkNode] using h, fun tr ns tr' h => by simpa [checkNodes] using h⟩
  | succ f ih =>
    obtain ⟨ihN, ihL⟩ := ih
    have hEN := compileEN_strict_ok_lax tc 16
    constructor
    · intro tr n tr' h
      cases n with
      | text s => simpa [checkNode] using h
      | end_ a b c d => simpa [checkNode] using h
      | useInternal a => simpa [checkNode] using h
      | codeBlock a => simpa [checkNode] using h
      | seq ns => simp only [checkNode] at h ⊢; exact ihL _ _ _ h
      | element st en ct =>
        simp only [checkNode] at h ⊢
        obtain ⟨t1, h1, h⟩ := bind_ok _ _ _ h
        obtain ⟨t2, h2, h⟩ := bind_ok _ _ _ h
        rw [ihN _ _ _ h1]; simp only [bind, Except.bind]
        rw [ihN _ _ _ h2]; simp only
        cases en with
        | none => exact h
        | some e => exact ihN _ _ _ h
      | start a b c attrs => simp only [checkNode] at h ⊢; exact ihN _ _ _ h
      | «attribute» a e b c d g i =>
        simp only [checkNode] at h ⊢
        obtain ⟨u, h1, h⟩ := bind_ok _ _ _ h
        rw [hEN e h1]; exact h
      | dictAttrs a e b =>
        simp only [checkNode] at h ⊢
        obtain ⟨u, h1, h⟩ := bind_ok _ _ _ h
        rw [hEN e h1]; exact h
      | content e a b =>
        simp only [checkNode] at h ⊢
        obtain ⟨u, h1, h⟩ := bind_ok _ _ _ h
        rw [hEN e h1]; exact h
      | interpolation e =>
        simp only [checkNode] at h ⊢
        obtain ⟨u, h1, h⟩ := bind_ok _ _ _ h
        rw [hEN e h1]; exact h
      | condition c node orelse =>
        simp only [checkNode] at h ⊢
        obtain ⟨u, h1, h⟩ := bind_ok _ _ _ h
        obtain ⟨t1, h2, h⟩ := bind_ok _ _ _ h
        rw [compileCond_strict_ok_lax tc 16 c h1]; simp only [bind, Except.bind]
        rw [ihN _ _ _ h2]; simp only
        cases orelse with
        | none => exact h
        | some o => exact ihN _ _ _ h
      | cache es node =>
        simp only [checkNode] at h ⊢
        obtain ⟨u, h1, h⟩ := bind_ok _ _ _ h
        rw [forM_ok_of _ _ es (fun x _ hx => hEN x.2 hx) h1]
        exact ihN _ _ _ h
      | cancel a node => simp only [checkNode] at h ⊢; exact ihN _ _ _ h
      | define assigns node =>
        simp only [checkNode] at h ⊢
        obtain ⟨u, h1, h⟩ := bind_ok _ _ _ h
        rw [forM_ok_of _ _ assigns (fun a _ ha => by
          cases a with
          | alias nm e => exact hEN e ha
          | assign names e l =>
            obtain ⟨u, hn, he⟩ := bind_ok _ _ _ ha
            simp only [hn, bind, Except.bind]; exact hEN e he) h1]
        exact ihN _ _ _ h
      | repeat_ a names e b c node =>
        simp only [checkNode] at h ⊢
        obtain ⟨u, h1, h⟩ := bind_ok _ _ _ h
        obtain ⟨u2, h2, h⟩ := bind_ok _ _ _ h
        rw [h1]; simp only [bind, Except.bind]
        rw [hEN e h2]; exact ihN _ _ _ h
      | onError a fallback node =>
        simp only [checkNode] at h ⊢
        obtain ⟨t1, h1, h⟩ := bind_ok _ _ _ h
        rw [ihN _ _ _ h1]; exact ihN _ _ _ h
      | translate a b node =>
        simp only [checkNode] at h ⊢
        obtain ⟨t1, h1, h⟩ := bind_ok _ _ _ h
        rw [ihN _ _ _ h1]; exact h
      | name nm node =>
        simp only [checkNode] at h ⊢
        cases tr with
        | nil => simp at h
        | cons top rest =>
          simp only at h ⊢
          split at h
          · simp at h
          · rename_i hc; simp only [hc, if_false]; exact ihN _ _ _ h
      | domain a node => simp only [checkNode] at h ⊢; exact ihN _ _ _ h
      | txContext a node => simp only [checkNode] at h ⊢; exact ihN _ _ _ h
      | target e node =>
        simp only [checkNode] at h ⊢
        obtain ⟨u, h1, h⟩ := bind_ok _ _ _ h
        rw [hEN e h1]; exact ihN _ _ _ h
      | defineSlot a node => simp only [checkNode] at h ⊢; exact ihN _ _ _ h
      | useExternal e slots ext =>
        simp only [checkNode] at h ⊢
        obtain ⟨t1, h1, h⟩ := bind_ok _ _ _ h
        obtain ⟨u, h2, h⟩ := bind_ok _ _ _ h
        rw [foldlM_ok_of _ _ slots tr t1 (fun s x t _ hx => ihN _ _ _ hx) h1]
        simp only [bind, Except.bind]
        rw [hEN e h2]; exact h
    · intro tr ns tr' h
      cases ns with
      | nil => simpa [checkNodes] using h
      | cons n ns =>
        simp only [checkNodes] at h ⊢
        obtain ⟨t1, h1, h⟩ := bind_ok _ _ _ h
        rw [ihN _ _ _ h1]; exact ihL _ _ _ h

theorem compileCheck_strict_ok_lax (tc : TCfg) (fuel : Nat) (macros : List (Str × Node)) (node : Node)
    (h : compileCheck tc true fuel macros node = .ok ()) : compileCheck tc false fuel macros node = .ok () := by
  unfold compileCheck at h ⊢
  obtain ⟨tr, h1, h⟩ := bind_ok _ _ _ h
  obtain ⟨tr2, h2, _⟩ := bind_ok _ _ _ h
  have hN := (checkNode_strict_ok_lax tc fuel).1
  rw [foldlM_ok_of _ _ macros [] tr (fun s x t _ hx => hN _ _ _ hx) h1]
  simp only [bind, Except.bind]
  rw [hN _ _ _ h2]
  rfl

/-- the request with the `strict` flag set -/
def RenderReq.withStrict (r : RenderReq) (b : Bool) : RenderReq := { r with strict := b }

/-- **C19 (same when valid)**: if strict compilation accepts the template, non-strict compilation
renders exactly the same outcome — for every template, configuration and binding. -/
theorem C19_same_when_valid (r : RenderReq)
    (hok : ∀ node macros, buildProgram
        { r.bcfg with booleanAttrs := (match r.booleanAttrs with | some b => b | none => if (r.xmlMode.getD (isXmlDoc r.src) && !r.textMode) then [] else r.htmlBooleans),
                      escape := !r.textMode } r.textMode
        (if r.xmlMode.getD (isXmlDoc r.src) then r.src else normalizeNewlines r.src) = .ok (node, macros) →
      compileCheck { rx := r.bcfg.rx, q := r.bcfg.q, oracle := r.oracle, decodeInterp := !r.textMode } true
        (8 * (if r.xmlMode.getD (isXmlDoc r.src) then r.src else normalizeNewlines r.src).length + 64) macros node = .ok ()) :
    render (r.withStrict false) = render (r.withStrict true) := by
  unfold render RenderReq.withStrict
  simp only
  split
  · rfl
  · rfl
  · rfl
  · rename_i node macros hb
    have h := hok node macros hb
    simp only [h, compileCheck_strict_ok_lax _ _ _ _ h]

end ChamVerif

namespace ChamVerif

/-- **C19 (strict mode rejects)**: an expression that does not compile makes the strict compile pass fail with exactly
that `ExpressionError` (class, message, token) -/
theorem C19_strict_rejects (tc : TCfg) (f : Nat) (tok etok : Tok) (msg : String)
    (h : compileTales tc 64 tok = .error (.template "ExpressionError" msg etok)) :
    compileEN tc true (f + 1) (.value tok) = .error (.template "ExpressionError" msg etok) := by
  simp [compileEN, laxFilter, h, bind, Except.bind]

/-- … non-strict mode accepts it at compile time … -/
theorem C19_lax_accepts (tc : TCfg) (f : Nat) (tok etok : Tok) (msg : String)
    (h : compileTales tc 64 tok = .error (.template "ExpressionError" msg etok)) :
    compileEN tc false (f + 1) (.value tok) = .ok () := by
  simp [compileEN, laxFilter, h, bind, Except.bind, pure, Except.pure]

/-- **C19 (deferred error)**: … and raises the same `ExpressionError`, with the token of the invalid expression
recorded, exactly when the expression is evaluated — nothing is evaluated, logged or output before -/
theorem C19_deferred_error (cfg : ECfg) (al : List (Str × Val)) (env : Env) (tok etok : Tok) (msg : String) (esc : Esc)
    (d : Option Str) (x : XState)
    (h : compileTales cfg.tc 64 tok = .error (.template "ExpressionError" msg etok)) :
    evalValue cfg al env tok esc d x =
      .raised { cls := "ExpressionError", msg := Str.ofString msg } { x with token := some (etok.pos, etok.str.length) } := by
  simp [evalValue, compileAt, h, bind, xSetTokenRaw, xRaise]

end ChamVerif

import ChamVerif.Pipeline
/-! # C09 — METAL: what the interpreter model does at a slot, and what survives a macro call -/
namespace ChamVerif

/-- **C09 (a slot without filler keeps its default content)** -/
theorem C09_slot_default (cfg : ECfg) (al : List (Str × Val)) (f : Nat) (nm : Tok) (node : Node) (s : RState)
    (h : lookupAssoc s.env.topFrame.slotFns (mangleName nm.str) = none ∨
         lookupAssoc s.env.topFrame.slotFns (mangleName nm.str) = some none) :
    eval cfg al (f + 1) (.defineSlot nm node) s = eval cfg al f node s := by
  rcases h with h | h <;> simp [eval, h]

/-- **C09 (a filled slot renders the caller's filler, and only that)**: the filler's node is evaluated with the aliases,
cached values, i18n settings and slot variables of the place where it was written, in a copy of the macro's scope;
afterwards the macro's own scope and `__token` are what they were (the filler's local variables are gone) -/
theorem C09_slot_filled (cfg : ECfg) (al : List (Str × Val)) (f : Nat) (nm : Tok) (node : Node) (s : RState) (cid : Nat)
    (cl : Closure) (h : lookupAssoc s.env.topFrame.slotFns (mangleName nm.str) = some (some cid))
    (hc : s.closures[cid]? = some cl) :
    (∀ s', eval cfg cl.al f cl.node (fillerEnter cl s) = .ok () s' →
      eval cfg al (f + 1) (.defineSlot nm node) s = .ok () (fillerLeave s s')) ∧
    (∀ ex s', eval cfg cl.al f cl.node (fillerEnter cl s) = .raised ex s' →
      eval cfg al (f + 1) (.defineSlot nm node) s = .raised ex (fillerRaise s s')) := by
  constructor
  · intro s' hr; simp [eval, h, hc, hr]
  · intro ex s' hr; simp [eval, h, hc, hr]

theorem C09_filler_scope (cl : Closure) (s s' : RState) :
    (fillerLeave s s').env.own = updateOwn s.env.own s'.env.rcontext ∧ (fillerLeave s s').env.frames = s.env.frames ∧
    (fillerLeave s s').x.token = none ∧ (fillerEnter cl s).env.own = s.env.own ∧
    (fillerEnter cl s).env.topFrame.domain = cl.domain := by
  simp [fillerLeave, fillerEnter, Env.topFrame]

/-- `econtext.update(rcontext)`: a name that was defined globally gets the global value, every other name keeps the
caller's value -/
theorem find_filter_other (l : List (Str × Val)) (k k' : Str) (hk : ¬k' = k) :
    (l.filter (fun x => x.1 != k')).find? (fun x => x.1 == k) = l.find? (fun x => x.1 == k) := by
  induction l with
  | nil => rfl
  | cons x xs ih =>
    by_cases hx : x.1 = k'
    · have h2 : (x.1 != k') = false := by simp [hx]
      have h3 : (x.1 == k) = false := by simp [hx]; exact hk
      simp only [List.filter_cons, h2, Bool.false_eq_true, if_false, List.find?_cons, h3]
      exact ih
    · have h2 : (x.1 != k') = true := by simpa using hx
      simp only [List.filter_cons, h2, if_true, List.find?_cons]
      cases hq : (x.1 == k)
      · exact ih
      · rfl

theorem C09_updateOwn_get (own rc : List (Str × Val)) (k : Str) :
    lookupAssoc (updateOwn own rc) k = match lookupAssoc rc k with | some v => some v | none => lookupAssoc own k := by
  unfold updateOwn
  induction rc with
  | nil => simp [lookupAssoc]
  | cons e rest ih =>
    obtain ⟨k', v'⟩ := e
    simp only [List.foldr_cons]
    by_cases hk : k' = k
    · subst hk
      simp [lookupAssoc]
    · have h1 : (k' == k) = false := by simpa using hk
      simp only [lookupAssoc, List.find?_cons, h1] at ih ⊢
      rw [find_filter_other _ k k' hk]
      exact ih

/-- **C09 (a macro's local variables never reach the caller, its global definitions do)**: after a macro call the caller's
own variables are those it had before the call, updated with `rcontext` — whatever the macro body did to its copy -/
theorem C09_locals_private (s s' : RState) (k : Str) (hk : lookupAssoc s'.env.rcontext k = none) :
    lookupAssoc (macroLeave s s').env.own k = lookupAssoc s.env.own k := by
  simp only [macroLeave]
  rw [C09_updateOwn_get]
  simp [hk]

theorem C09_globals_reach_caller (s s' : RState) (k : Str) (v : Val) (hk : lookupAssoc s'.env.rcontext k = some v) :
    lookupAssoc (macroLeave s s').env.own k = some v := by
  simp only [macroLeave]
  rw [C09_updateOwn_get]
  simp [hk]

/-- the callee starts from a *copy*: the caller's variables are all visible, `__token` is unset, and the caller's frame
(its cached values, saved lengths) is not the callee's -/
theorem C09_macro_enter (tid : Nat) (body : Node) (s : RState) :
    (macroEnter tid body s).env.own = s.env.own ∧ (macroEnter tid body s).x.token = none ∧
    (macroEnter tid body s).env.topFrame.cache = [] ∧ (macroEnter tid body s).env.topFrame.domain = s.env.topFrame.domain ∧
    (macroEnter tid body s).env.topFrame.tid = tid := by
  simp [macroEnter, Env.topFrame]

/-- the slot resolution pops the *rightmost* filler of the deque: in an extend chain (`appendleft`) the outermost
caller's filler wins, and the deque is left with the others -/
theorem C09_resolve_pops_rightmost (env : Env) (heap : List (Nat × List Nat)) (nm : Str) (did cid : Nat) (others : List Nat)
    (hv : env.get (lit "__slot_" ++ nm) = some (.slots did)) (hh : heapGet heap did = others ++ [cid]) :
    resolveSlots env heap [nm] = (heapSet heap did others, [(nm, some cid)]) := by
  simp [resolveSlots, hv, hh]

theorem C09_resolve_missing (env : Env) (heap : List (Nat × List Nat)) (nm : Str)
    (hv : env.get (lit "__slot_" ++ nm) = none) :
    resolveSlots env heap [nm] = (heap, [(nm, none)]) := by
  simp [resolveSlots, hv]

/-- **C09 (a macro of another template runs in its own template)**: inside the callee's activation `macros` and `template`
are those of the template the macro was written in — whatever template is being rendered — because name resolution reads
the template id of the innermost frame, which `macroEnter tid` sets -/
theorem C09_macro_names_resolve_in_its_template (cfg : ECfg) (al : List (Str × Val)) (tid : Nat) (body : Node) (s : RState) (est : ESt)
    (hfree : lookupAssoc al (lit "macros") = none)
    (hvar : lookupAssoc ((macroEnter tid body s).env.own ++ (macroEnter tid body s).env.root) (lit "macros") = none) :
    resolveName (mkECtx cfg al (macroEnter tid body s).env) (lit "macros") est = (.ok (.macros tid), est) := by
  have htid : (mkECtx cfg al (macroEnter tid body s).env).tid = tid := by
    simp [mkECtx, macroEnter]
  unfold resolveName
  have h1 : startsWith (lit "macros") (lit "__") = false := by decide
  have h2 : internals.contains (lit "macros").toString = false := by decide
  simp only [h1, h2, Bool.false_eq_true, Bool.or_self, if_false]
  have ha : lookupAssoc (mkECtx cfg al (macroEnter tid body s).env).aliases (lit "macros") = none := by simpa [mkECtx] using hfree
  have hv : lookupAssoc (mkECtx cfg al (macroEnter tid body s).env).vars (lit "macros") = none := by simpa [mkECtx] using hvar
  simp only [ha, hv]
  have h3 : ((lit "macros").toString == "nothing") = false := by decide
  have h4 : ((lit "macros").toString == "macros") = true := by decide
  simp [h3, h4, htid, pure]

end ChamVerif

import ChamProofs.RootEval
/-! # C05 on the interpreter: a local definition ends with its element -/
namespace ChamVerif
open ChamVerif.Root

theorem get_after_set (e : Env) (k : Str) (x : Val) :
    ({ e with own := (k, x) :: e.own.filter (·.1 != k) } : Env).get k = some x := by
  simp [Env.get, lookupAssoc]

theorem lookup_filter_self (l : List (Str × Val)) (k : Str) : lookupAssoc (l.filter (·.1 != k)) k = none := by
  induction l with
  | nil => rfl
  | cons x xs ih =>
    by_cases hx : x.1 = k
    · have h2 : (x.1 != k) = false := by simp [hx]
      simp only [List.filter_cons, h2, Bool.false_eq_true, if_false]
      exact ih
    · have h2 : (x.1 != k) = true := by simpa using hx
      have h3 : (x.1 == k) = false := by simpa using hx
      simp only [List.filter_cons, h2, if_true]
      simp only [lookupAssoc, List.find?_cons, h3] at ih ⊢
      exact ih

theorem forM_single {α} (f : α → RM Unit) (a : α) : [a].forM f = (f a >>= fun _ => pure ()) := rfl

/-- **C05 (locals end with their element)**: when an element with a local `tal:define` of `name` is finished, `name` is
bound to exactly what it was bound to before — the outer binding is visible again unchanged, or the name is
undefined again — whatever the element's body did (including defining a global of the same name).  For every body,
scope, state and fuel. -/
theorem C05_local_define_restores (cfg : ECfg) (al : List (Str × Val)) (f : Nat) (nm : Tok) (e : EN) (node : Node)
    (s s' : RState) (h : eval cfg al (f + 3) (.define [.assign [nm] e true] node) s = .ok () s') :
    s'.env.get nm.str = s.env.get nm.str := by
  simp only [eval, evalDefine, bind, mGet, pure, List.append_nil, Bool.not_true, Bool.false_eq_true, if_false] at h
  cases hv : enVal cfg al e s with
  | raised ex s1 => simp [hv] at h
  | unsupported w => simp [hv] at h
  | ok v s1 =>
    simp only [hv] at h
    have hr1 : rootOf s1 = rootOf s := (rk_enVal cfg al e).at_ s v s1 hv
    -- setVar is a pure state update
    simp only [setVar, modEnv, mModify] at h
    cases hb : eval cfg al f node { s1 with env := { s1.env with own := (nm.str, v) :: s1.env.own.filter (·.1 != nm.str) } } with
    | raised ex s3 => simp [hb] at h
    | unsupported w => simp [hb] at h
    | ok u s3 =>
      simp only [hb] at h
      have hr3 : rootOf s3 = rootOf s := by
        rw [((rk_all cfg f).1 al node).at_ _ u s3 hb]
        simpa [rootOf] using hr1
      cases hold : s.env.get nm.str with
      | some x =>
        simp only [↓reduceIte, List.map_cons, List.map_nil, hold, restore, forM_single, setVar, modEnv, mModify, bind, pure, Res.ok.injEq, true_and] at h
        subst h
        exact get_after_set _ _ _
      | none =>
        simp only [↓reduceIte, List.map_cons, List.map_nil, hold, restore, forM_single, delVar, modEnv, mModify, bind, pure, Res.ok.injEq, true_and] at h
        subst h
        have hroot : s3.env.root = s.env.root := by
          have := hr3; simp only [rootOf, Prod.mk.injEq] at this; exact this.1
        simp only [Env.get, lookup_filter_self, hroot]
        simp only [Env.get] at hold
        cases ho : lookupAssoc s.env.own nm.str with
        | some y => simp [ho] at hold
        | none => simpa [ho] using hold

/-! ## the loop variable of `tal:repeat` -/

/-- `m` runs `k` last, from a state with the root dictionary `r0` it started with -/
structure EndsWith (k m : RM Unit) (r0 : List (Str × Val) × Bool) : Prop where
  run : ∀ s s', rootOf s = r0 → m s = .ok () s' → ∃ s1, rootOf s1 = r0 ∧ k s1 = .ok () s'

theorem endsWith_self (k : RM Unit) (r0) : EndsWith k k r0 := ⟨fun s s' hr h => ⟨s, hr, h⟩⟩

theorem endsWith_bind {α} (k : RM Unit) (r0) (m : RM α) (F : α → RM Unit) (hm : RootKept m)
    (hF : ∀ a, EndsWith k (F a) r0) : EndsWith k (m >>= F) r0 := by
  constructor
  intro s s' hr h
  simp only [bind] at h
  cases hms : m s with
  | raised ex s1 => simp [hms] at h
  | unsupported w => simp [hms] at h
  | ok a s1 =>
    simp only [hms] at h
    exact (hF a).run s1 s' ((hm.at_ s a s1 hms).trans hr) h

theorem mGet_bind {β} (G : RState → RM β) (s : RState) : (mGet >>= G) s = G s s := rfl

/-- restoring a name after a computation that keeps the root dictionary gives back exactly the old binding -/
theorem restore_gives_back (nm : Str) (s s1 s' : RState) (hr : rootOf s1 = rootOf s)
    (h : restore [(nm, s.env.get nm)] s1 = .ok () s') : s'.env.get nm = s.env.get nm := by
  cases hold : s.env.get nm with
  | some x =>
    simp only [hold, restore, forM_single, setVar, modEnv, mModify, bind, pure, Res.ok.injEq, true_and] at h
    subst h
    exact get_after_set _ _ _
  | none =>
    simp only [hold, restore, forM_single, delVar, modEnv, mModify, bind, pure, Res.ok.injEq, true_and] at h
    subst h
    have hroot : s1.env.root = s.env.root := by
      have := hr; simp only [rootOf, Prod.mk.injEq] at this; exact this.1
    simp only [Env.get, lookup_filter_self, hroot]
    simp only [Env.get] at hold
    cases ho : lookupAssoc s.env.own nm with
    | some y => simp [ho] at hold
    | none => simpa [ho] using hold

/-- **C05 (the loop variable ends with its element)**: when an element with a (local) `tal:repeat` of `name` is
finished — after any number of iterations, whatever the body did — `name` is bound to exactly what it was bound to
before the loop, or is undefined again. -/
theorem C05_repeat_restores (cfg : ECfg) (al : List (Str × Val)) (f id : Nat) (nm : Tok) (e : EN) (ws : Str) (node : Node)
    (s s' : RState) (h : eval cfg al (f + 1) (.repeat_ id [nm] e true ws node) s = .ok () s') :
    s'.env.get nm.str = s.env.get nm.str := by
  simp only [eval, if_true, List.map_cons, List.map_nil] at h
  rw [mGet_bind] at h
  generalize hold : s.env.get nm.str = old at h
  generalize s.env.get (lit "repeat") = rd at h
  have hE : ∀ m : RM Unit, m s = .ok () s' → EndsWith (restore [(nm.str, old)]) m (rootOf s) →
      ∃ s1, rootOf s1 = rootOf s ∧ restore [(nm.str, old)] s1 = .ok () s' := fun m hm hE => hE.run s s' rfl hm
  obtain ⟨s1, hr, hk⟩ := hE _ h (by
    repeat' (first
      | exact endsWith_self _ _
      | (apply endsWith_bind)
      | exact rk_enVal _ _ _
      | exact rk_pure _
      | exact rk_unsupported _
      | exact rk_modEnv _ (fun _ => ⟨rfl, rfl⟩)
      | exact rk_get
      | exact rk_modify _ (fun _ => rfl)
      | exact rk_forM _ _ (fun a => rk_setVar _ _)
      | exact (rk_all cfg f).2.2.2 al _ _ _ _ _ _ _
      | intro _
      | split))
  rw [← hold] at hk
  rw [← hold]
  exact restore_gives_back nm.str s s1 s' hr hk

/-- **C08 (nothing at all for an empty iterable or `None`)**: a `tal:repeat` whose expression evaluates to `None` or to
an empty list renders nothing — the output stack is what it was after evaluating the expression, the body is not
evaluated — and the loop variable is restored. -/
theorem C08_empty_renders_nothing (cfg : ECfg) (al : List (Str × Val)) (f id : Nat) (nm : Tok) (e : EN) (ws : Str) (node : Node)
    (s s1 : RState) (v : Val) (hv : enVal cfg al e s = .ok v s1) (hempty : v = .none ∨ v = .list [] ∨ v = .tuple [])
    (hrep : s.env.get (lit "repeat") = some .repeatDict) :
    ∃ s', eval cfg al (f + 2) (.repeat_ id [nm] e true ws node) s = .ok () s' ∧ s'.streams = s1.streams ∧
      s'.env.get nm.str = s.env.get nm.str := by
  have hstep : ∃ s', eval cfg al (f + 2) (.repeat_ id [nm] e true ws node) s = .ok () s' ∧ s'.streams = s1.streams := by
    simp only [eval, if_true, List.map_cons, List.map_nil]
    rw [mGet_bind]
    simp only [bind, hv, hrep, pure]
    rcases hempty with h | h | h <;> subst h <;>
      simp only [evalRepeat, modEnv, mModify, mGet, forM_single, setVar, bind, pure, restore, List.length_nil] <;>
      (cases hold : s.env.get nm.str <;> simp [setVar, delVar, modEnv, mModify, mGet, forM_single, bind, pure])
  obtain ⟨s', hs', hstr⟩ := hstep
  exact ⟨s', hs', hstr, C05_repeat_restores cfg al (f + 1) id nm e ws node s s' hs'⟩

end ChamVerif

import ChamVerif.Build
import ChamProofs.Props.C01
/-! # C01 — the order in which the statement attributes are written cannot matter

`visit_element` of the model reads a start tag through three things only: the statement dictionary
(`ns_attrs`, by key), the list of the other attributes (`prepare_attributes`, which skips the statement
attributes) and the fields of `Head`.  This file proves that all three are the same for two start tags whose
attribute lists are permutations of each other that keep the relative order of the non-statement attributes —
hence the node tree built for the element, and with it everything rendered from it, is the same. -/
namespace ChamVerif

abbrev OD := List ((Str × Str) × Tok)

/-! ## ordered dictionaries -/

theorem odSet_keys_nodup (d : OD) (k : Str × Str) (v : Tok) (h : (d.map (·.1)).Nodup) :
    ((odSet d k v).map (·.1)).Nodup := by
  unfold odSet
  split
  · have : (d.map (fun e => if e.1 == k then (k, v) else e)).map (·.1) = d.map (·.1) := by
      rw [List.map_map]
      apply List.map_congr_left
      intro e _
      simp only [Function.comp]
      split
      · rename_i hk; exact (beq_iff_eq.mp hk).symm
      · rfl
    rw [this]; exact h
  · rename_i hn
    rw [List.map_append, List.nodup_append]
    refine ⟨h, by simp, ?_⟩
    intro a ha b hb
    simp only [List.map_cons, List.map_nil, List.mem_singleton] at hb
    subst hb
    intro hab
    subst hab
    apply hn
    rw [List.any_eq_true]
    rw [List.mem_map] at ha
    obtain ⟨e, he, hek⟩ := ha
    exact ⟨e, he, by simp [hek]⟩

theorem nsGet_odSet (d : OD) (k k' : Str × Str) (v : Tok) :
    nsGet (odSet d k v) k' = if k = k' then some v else nsGet d k' := by
  unfold odSet nsGet
  split
  · rename_i hany
    induction d with
    | nil => simp at hany
    | cons e d ih =>
      simp only [List.map_cons, List.find?_cons]
      by_cases hek : (e.1 == k) = true
      · have := beq_iff_eq.mp hek
        simp only [hek, if_true]
        by_cases hkk : k = k'
        · subst hkk; simp
        · have h1 : ((k == k') = false) := by simpa using hkk
          have h2 : ((e.1 == k') = false) := by rw [this]; exact h1
          simp only [h1, h2, hkk, if_false]
          by_cases hany' : d.any (·.1 == k) = true
          · have := ih hany'
            simpa [hkk] using this
          · -- no further entry with key k: the map is the identity
            have hid : d.map (fun e => if (e.1 == k) = true then (k, v) else e) = d := by
              conv => rhs; rw [← List.map_id d]
              apply List.map_congr_left
              intro x hx
              have : (x.1 == k) = false := by
                cases hxk : (x.1 == k) with
                | false => rfl
                | true => exact absurd (List.any_eq_true.mpr ⟨x, hx, hxk⟩) hany'
              simp [this]
            rw [hid]
      · have hek' : (e.1 == k) = false := by simpa using hek
        simp only [hek', Bool.false_eq_true, if_false]
        have hany' : d.any (·.1 == k) = true := by
          simp only [List.any_cons, hek', Bool.false_or] at hany; exact hany
        by_cases hk' : (e.1 == k') = true
        · have hne : k ≠ k' := by
            intro h; subst h; rw [hk'] at hek'; cases hek'
          simp [hk', hne]
        · have hk'' : (e.1 == k') = false := by simpa using hk'
          simp only [hk'']
          exact ih hany'
  · rename_i hany
    rw [List.find?_append]
    by_cases hkk : k = k'
    · subst hkk
      have : d.find? (·.1 == k) = none := by
        rw [List.find?_eq_none]
        intro x hx hxk
        exact hany (List.any_eq_true.mpr ⟨x, hx, hxk⟩)
      simp [this]
    · have h1 : ((k == k') = false) := by simpa using hkk
      simp only [hkk, if_false]
      cases hf : d.find? (·.1 == k') with
      | some x => simp
      | none => simp [h1]

/-! ## the statement dictionary of a start tag -/

/-- the key under which `unpack_attributes` files an attribute -/
def attrKey (m : NsMap) (d : Str) (a : Attr) : Str × Str :=
  match splitColon a.name.str with
  | some (pfx, l) => ((m.get (some pfx)).getD d, l)
  | none => (d, a.name.str)

theorem attrNamespace_eq (m : NsMap) (d : Str) (a : Attr) : attrNamespace m d a = (attrKey m d a).1 := by
  unfold attrNamespace attrKey; split <;> simp [*]

/-- the dictionary after filing `l` into `acc` -/
def fileAll (m : NsMap) (d : Str) (acc : OD) (l : List Attr) : OD :=
  l.foldl (fun acc a => odSet acc (attrKey m d a) a.value) acc

theorem unpackStep_files (m : NsMap) (d : Str) (r : Bool) (acc acc' : OD) (a : Attr)
    (h : unpackStep m d r acc a = .ok acc') : acc' = odSet acc (attrKey m d a) a.value := by
  unfold unpackStep at h
  unfold attrKey
  split at h
  · rename_i pfx l hs
    rw [hs]
    split at h
    · rename_i ns hm; simp only [pure, Except.pure, Except.ok.injEq] at h; simp [hm, ← h]
    · rename_i hm
      split at h
      · cases h
      · simp only [pure, Except.pure, Except.ok.injEq] at h; simp [hm, ← h]
  · rename_i hs
    rw [hs]
    simp only [pure, Except.pure, Except.ok.injEq] at h; exact h.symm

theorem foldlM_unpack_ok (m : NsMap) (d : Str) (r : Bool) (l : List Attr) (acc ns : OD)
    (h : l.foldlM (unpackStep m d r) acc = .ok ns) : ns = fileAll m d acc l := by
  induction l generalizing acc with
  | nil => simp only [List.foldlM_nil, pure, Except.pure, Except.ok.injEq] at h; exact h.symm
  | cons a l ih =>
    simp only [List.foldlM_cons, bind, Except.bind] at h
    split at h
    · cases h
    · rename_i acc' hstep
      rw [unpackStep_files m d r acc acc' a hstep] at h
      exact ih _ h

theorem unpack_ok (m : NsMap) (d : Str) (r : Bool) (l : List Attr) (ns : OD)
    (h : unpackAttributes l m d r = .ok ns) : ns = fileAll m d [] l :=
  foldlM_unpack_ok m d r l [] ns h

theorem fileAll_keys_nodup (m : NsMap) (d : Str) (l : List Attr) (acc : OD) (h : (acc.map (·.1)).Nodup) :
    ((fileAll m d acc l).map (·.1)).Nodup := by
  induction l generalizing acc with
  | nil => exact h
  | cons a l ih => exact ih _ (odSet_keys_nodup acc _ _ h)

/-- the value the dictionary holds for `k`: that of the last attribute filed under `k` -/
def lastVal (m : NsMap) (d : Str) (k : Str × Str) : List Attr → Option Tok
  | [] => none
  | a :: l => match lastVal m d k l with
    | some v => some v
    | none => if attrKey m d a = k then some a.value else none

theorem nsGet_fileAll (m : NsMap) (d : Str) (l : List Attr) (acc : OD) (k : Str × Str) :
    nsGet (fileAll m d acc l) k = match lastVal m d k l with | some v => some v | none => nsGet acc k := by
  induction l generalizing acc with
  | nil => rfl
  | cons a l ih =>
    show nsGet (fileAll m d (odSet acc (attrKey m d a) a.value) l) k = _
    rw [ih, nsGet_odSet]
    simp only [lastVal]
    cases lastVal m d k l with
    | some v => rfl
    | none => simp only []; split <;> rfl

theorem lastVal_none (m : NsMap) (d : Str) (k : Str × Str) (l : List Attr) :
    lastVal m d k l = none ↔ ∀ a ∈ l, attrKey m d a ≠ k := by
  induction l with
  | nil => simp [lastVal]
  | cons a l ih =>
    simp only [lastVal, List.mem_cons, forall_eq_or_imp]
    cases h : lastVal m d k l with
    | some v =>
      simp only [reduceCtorEq, false_iff, not_and]
      intro _ hall
      rw [ih.mpr hall] at h; cases h
    | none =>
      simp only []
      rw [ih] at h
      by_cases hk : attrKey m d a = k
      · simp [hk]
      · simpa [hk] using h

theorem lastVal_filter (m : NsMap) (d : Str) (k : Str × Str) (P : Attr → Bool) (l : List Attr)
    (h : ∀ a ∈ l, attrKey m d a = k → P a = true) : lastVal m d k (l.filter P) = lastVal m d k l := by
  induction l with
  | nil => rfl
  | cons a l ih =>
    have ih' := ih (fun b hb => h b (List.mem_cons_of_mem _ hb))
    by_cases hp : P a = true
    · simp only [List.filter_cons, hp, if_true, lastVal, ih']
    · have hk : attrKey m d a ≠ k := fun hk => hp (h a (List.mem_cons_self) hk)
      have hp' : P a = false := by simpa using hp
      simp only [List.filter_cons, hp', lastVal, hk, if_false, Bool.false_eq_true]
      rw [ih']
      cases lastVal m d k l <;> rfl

theorem lastVal_perm (m : NsMap) (d : Str) (k : Str × Str) (l l' : List Attr) (hp : l'.Perm l)
    (hnd : (l'.map (attrKey m d)).Nodup) : lastVal m d k l' = lastVal m d k l := by
  induction hp with
  | nil => rfl
  | cons x _ ih =>
    simp only [List.map_cons, List.nodup_cons] at hnd
    simp only [lastVal, ih hnd.2]
  | swap x y l =>
    simp only [List.map_cons, List.nodup_cons, List.mem_cons, not_or] at hnd
    simp only [lastVal]
    cases lastVal m d k l with
    | some v => rfl
    | none =>
      simp only []
      by_cases hx : attrKey m d x = k
      · by_cases hy : attrKey m d y = k
        · exact absurd (hy.trans hx.symm) hnd.1.1
        · simp [hx, hy]
      · by_cases hy : attrKey m d y = k <;> simp [hx, hy]
  | trans h12 _ ih1 ih2 =>
    have h2 := (List.Perm.nodup_iff (List.Perm.map (attrKey m d) h12)).mp hnd
    rw [ih1 hnd, ih2 h2]

/-- a statement attribute: one whose resolved namespace is a template-language namespace -/
def isStmt (m : NsMap) (d : Str) (a : Attr) : Bool := dropNs.contains (attrKey m d a).1

/-- **the dictionary does not see the order**: if two attribute lists are permutations of each other, agree on the
sequence of their non-statement attributes, and the statement attributes have distinct keys, then every key has the
same last value in both. -/
theorem lastVal_stmtPerm (m : NsMap) (d : Str) (l l' : List Attr) (hp : l'.Perm l)
    (hothers : l'.filter (fun a => !isStmt m d a) = l.filter (fun a => !isStmt m d a))
    (hnd : ((l.filter (isStmt m d)).map (attrKey m d)).Nodup) (k : Str × Str) :
    lastVal m d k l' = lastVal m d k l := by
  by_cases hk : dropNs.contains k.1 = true
  · have hS : ∀ (l : List Attr), ∀ a ∈ l, attrKey m d a = k → isStmt m d a = true := by
      intro _ a _ ha; unfold isStmt; rw [ha]; exact hk
    rw [← lastVal_filter m d k (isStmt m d) l (hS l), ← lastVal_filter m d k (isStmt m d) l' (hS l')]
    have hp' : (l'.filter (isStmt m d)).Perm (l.filter (isStmt m d)) := hp.filter _
    exact lastVal_perm m d k _ _ hp' ((List.Perm.nodup_iff (hp'.map _)).mpr hnd)
  · have hS : ∀ (l : List Attr), ∀ a ∈ l, attrKey m d a = k → (!isStmt m d a) = true := by
      intro _ a _ ha; unfold isStmt; rw [ha]; simpa using hk
    rw [← lastVal_filter m d k (fun a => !isStmt m d a) l (hS l),
        ← lastVal_filter m d k (fun a => !isStmt m d a) l' (hS l'), hothers]

theorem nsGet_stmtPerm (m : NsMap) (d : Str) (l l' : List Attr) (hp : l'.Perm l)
    (hothers : l'.filter (fun a => !isStmt m d a) = l.filter (fun a => !isStmt m d a))
    (hnd : ((l.filter (isStmt m d)).map (attrKey m d)).Nodup) (k : Str × Str) :
    nsGet (fileAll m d [] l') k = nsGet (fileAll m d [] l) k := by
  rw [nsGet_fileAll, nsGet_fileAll, lastVal_stmtPerm m d l l' hp hothers hnd]

/-! ## dictionaries with the same lookups are permutations of each other -/

theorem mem_iff_nsGet (l : OD) (h : (l.map (·.1)).Nodup) (k : Str × Str) (v : Tok) :
    (k, v) ∈ l ↔ nsGet l k = some v := by
  unfold nsGet
  induction l with
  | nil => simp
  | cons e l ih =>
    simp only [List.map_cons, List.nodup_cons] at h
    simp only [List.mem_cons, List.find?_cons]
    by_cases hek : (e.1 == k) = true
    · have hk := beq_iff_eq.mp hek
      simp only [hek, Option.map_some, Option.some.injEq]
      constructor
      · rintro (h1 | h1)
        · rw [← h1]
        · exfalso; apply h.1; rw [hk]; exact List.mem_map.mpr ⟨(k, v), h1, rfl⟩
      · intro h1; left; rw [← h1, ← hk]
    · have hek' : (e.1 == k) = false := by simpa using hek
      simp only [hek']
      rw [← ih h.2]
      constructor
      · rintro (h1 | h1)
        · rw [← h1] at hek'; simp at hek'
        · exact h1
      · intro h1; right; exact h1

theorem nodup_of_map {α β} (f : α → β) (l : List α) (h : (l.map f).Nodup) : l.Nodup := by
  induction l with
  | nil => exact List.nodup_nil
  | cons a l ih =>
    simp only [List.map_cons, List.nodup_cons] at h ⊢
    exact ⟨fun ha => h.1 (List.mem_map.mpr ⟨a, ha, rfl⟩), ih h.2⟩

theorem od_perm_of_get (l l' : OD) (h : (l.map (·.1)).Nodup) (h' : (l'.map (·.1)).Nodup)
    (hget : ∀ k, nsGet l' k = nsGet l k) : l'.Perm l := by
  rw [List.perm_ext_iff_of_nodup (nodup_of_map _ _ h') (nodup_of_map _ _ h)]
  intro ⟨k, v⟩
  rw [mem_iff_nsGet l' h', mem_iff_nsGet l h, hget]

/-! ## the first steps of `visit_element` on a permuted dictionary -/

def decOne (rx : Rx) (e : (Str × Str) × Tok) : (Str × Str) × Tok := (decodeNsAttr rx e).getD e

theorem decOne_key (rx : Rx) (e : (Str × Str) × Tok) : (decOne rx e).1 = e.1 := by
  unfold decOne decodeNsAttr
  split
  · cases decodeEntities rx e.2.str <;> rfl
  · rfl

theorem decodeNsAttrs_eq (rx : Rx) (l : OD) :
    decodeNsAttrs rx l = if l.all (fun e => (decodeNsAttr rx e).isSome) then some (l.map (decOne rx)) else none := by
  induction l with
  | nil => rfl
  | cons e l ih =>
    simp only [decodeNsAttrs, ih, List.all_cons, List.map_cons]
    cases he : decodeNsAttr rx e with
    | none => simp
    | some e' =>
      cases hl : l.all (fun e => (decodeNsAttr rx e).isSome) with
      | false => simp
      | true => simp [decOne, he]

theorem decodeNsAttrs_perm (rx : Rx) (l l' ns : OD) (hp : l'.Perm l) (h : decodeNsAttrs rx l = some ns) :
    ∃ ns', decodeNsAttrs rx l' = some ns' ∧ ns'.Perm ns ∧ ns.map (·.1) = l.map (·.1) := by
  rw [decodeNsAttrs_eq] at h
  split at h
  · rename_i hall
    simp only [Option.some.injEq] at h
    refine ⟨l'.map (decOne rx), ?_, ?_, ?_⟩
    · rw [decodeNsAttrs_eq, hp.all_eq, hall]; rfl
    · rw [← h]; exact hp.map _
    · rw [← h, List.map_map]
      apply List.map_congr_left
      intro e _
      exact decOne_key rx e
  · cases h

/-- the statement attributes pass `validate_attributes` -/
def validOK (ns : OD) (nsp : Str) (wl : List String) : Bool :=
  ns.all (fun e => !(e.1.1 == nsp && !wl.contains e.1.2.toString))

theorem forM_ok_iff {α ε} (f : α → Except ε Unit) (l : List α) :
    l.forM f = .ok () ↔ ∀ a ∈ l, f a = .ok () := by
  induction l with
  | nil => simp [pure, Except.pure]
  | cons a l ih =>
    have hc : (a :: l).forM f = (f a >>= fun _ => l.forM f) := rfl
    rw [hc]
    simp only [List.mem_cons, forall_eq_or_imp]
    cases h : f a with
    | error e => simp [bind, Except.bind]
    | ok u => simp only [bind, Except.bind, true_and]; exact ih

theorem validate_ok_iff (ns names : OD) (nsp : Str) (wl : List String) :
    validateAttributes ns names nsp wl = .ok () ↔ validOK ns nsp wl = true := by
  unfold validateAttributes validOK
  rw [forM_ok_iff, List.all_eq_true]
  apply forall_congr'
  intro e
  apply imp_congr_right
  intro _
  obtain ⟨⟨n, name⟩, v⟩ := e
  by_cases hbad : (n == nsp && !wl.contains name.toString) = true
  · simp only [hbad, if_true, Bool.not_true, Bool.false_eq_true, iff_false]
    cases names.find? (·.1 == (n, name)) <;> simp
  · have hbad' : (n == nsp && !wl.contains name.toString) = false := by simpa using hbad
    simp only [hbad', Bool.false_eq_true, if_false, Bool.not_false, pure, Except.pure]

theorem liftCB_ok {α} (r : CRes α) (s : BState) (a : α) (s' : BState) :
    liftCB r s = .ok (a, s') ↔ r = .ok a ∧ s' = s := by
  unfold liftCB
  cases r with
  | error e => simp
  | ok b => simp only [Except.ok.injEq, Prod.mk.injEq]; constructor <;> (rintro ⟨h1, h2⟩; exact ⟨h1, h2.symm⟩)

theorem elementPre_ok (c : BCfg) (e : Elem) (s s' : BState) (hd : c.enableDataAttributes = false)
    (ns : OD) (attrs : List Attr) :
    elementPre c e s = .ok ((ns, attrs), s') ↔
      (s' = s ∧ attrs = e.tag.attrs ∧ decodeNsAttrs c.rx e.nsAttrs = some ns ∧
       validOK ns TAL talWhitelist = true ∧ validOK ns METAL metalWhitelist = true ∧
       validOK ns I18N i18nWhitelist = true) := by
  unfold elementPre
  simp only [hd, Bool.false_eq_true, if_false, bind, pure]
  constructor
  · intro h
    cases hdec : decodeNsAttrs c.rx e.nsAttrs with
    | none => rw [hdec] at h; simp [bCrash] at h
    | some ns0 =>
      rw [hdec] at h
      simp only [liftCB] at h
      cases h1 : validateAttributes ns0 e.nsNames TAL talWhitelist with
      | error err => rw [h1] at h; cases h
      | ok u1 =>
        cases h2 : validateAttributes ns0 e.nsNames METAL metalWhitelist with
        | error err => rw [h1, h2] at h; cases h
        | ok u2 =>
          cases h3 : validateAttributes ns0 e.nsNames I18N i18nWhitelist with
          | error err => rw [h1, h2, h3] at h; cases h
          | ok u3 =>
            rw [h1, h2, h3] at h
            simp only [Except.ok.injEq, Prod.mk.injEq] at h
            obtain ⟨⟨rfl, rfl⟩, rfl⟩ := h
            exact ⟨rfl, rfl, rfl, (validate_ok_iff _ _ _ _).mp h1, (validate_ok_iff _ _ _ _).mp h2,
              (validate_ok_iff _ _ _ _).mp h3⟩
  · rintro ⟨rfl, rfl, hdec, h1, h2, h3⟩
    rw [hdec]
    simp only [liftCB, (validate_ok_iff ns e.nsNames _ _).mpr h1, (validate_ok_iff ns e.nsNames _ _).mpr h2,
      (validate_ok_iff ns e.nsNames _ _).mpr h3]

/-! ## `prepare_attributes` skips the statement attributes -/

theorem init_fold_skip (drop : List Str) : ∀ (attrs : List Attr) (acc : List PAttr × List (Str × Int)),
    attrs.foldl (fun (acc : List PAttr × List (Str × Int)) a =>
      if drop.contains a.name.str then acc else
        let pa : PAttr := ⟨some a.name.str, some a.value, a.quote.str, a.space.str, a.eq.str, none⟩
        let l := acc.1 ++ [pa]
        (l, (lowerStr a.name.str, (l.length : Int) - 1) :: acc.2.filter (·.1 != lowerStr a.name.str))) acc
    = (attrs.filter (fun a => !drop.contains a.name.str)).foldl (fun (acc : List PAttr × List (Str × Int)) a =>
        let pa : PAttr := ⟨some a.name.str, some a.value, a.quote.str, a.space.str, a.eq.str, none⟩
        let l := acc.1 ++ [pa]
        (l, (lowerStr a.name.str, (l.length : Int) - 1) :: acc.2.filter (·.1 != lowerStr a.name.str))) acc := by
  intro attrs
  induction attrs with
  | nil => intro acc; rfl
  | cons a attrs ih =>
    intro acc
    simp only [List.foldl_cons, List.filter_cons]
    by_cases hd : drop.contains a.name.str = true
    · simp only [hd, if_true, Bool.not_true, Bool.false_eq_true, if_false]; exact ih _
    · have hd' : drop.contains a.name.str = false := by simpa using hd
      simp only [hd', Bool.false_eq_true, if_false, Bool.not_false, if_true, List.foldl_cons]; exact ih _

theorem filter_sub {α} (P Q : α → Bool) (l : List α) (h : ∀ a ∈ l, P a = true → Q a = true) :
    l.filter P = (l.filter Q).filter P := by
  rw [List.filter_filter]
  apply List.filter_congr
  intro a ha
  cases hP : P a with
  | false => rfl
  | true => simp [h a ha hP]

/-- the attribute list `prepare_attributes` works on does not see the statement attributes -/
theorem kept_stmtPerm (q : Quirks) (hq : q.zipPairing = false) (m : NsMap) (d : Str) (l l' : List Attr)
    (ns ns' : OD) (hp : l'.Perm l)
    (hothers : l'.filter (fun a => !isStmt m d a) = l.filter (fun a => !isStmt m d a)) :
    l'.filter (fun a => !(dropNames q l' (attrNamespace m d) ns' dropNs).contains a.name.str) =
    l.filter (fun a => !(dropNames q l (attrNamespace m d) ns dropNs).contains a.name.str) := by
  have hmem : ∀ x, (dropNames q l' (attrNamespace m d) ns' dropNs).contains x =
      (dropNames q l (attrNamespace m d) ns dropNs).contains x := by
    intro x
    simp only [dropNames, hq, Bool.false_eq_true, if_false]
    have hp' := (hp.filter (fun a => isDropped dropNs (attrNamespace m d a) a.value.str)).map (·.name.str)
    rw [Bool.eq_iff_iff]
    simp only [List.contains_iff_mem]
    exact hp'.mem_iff
  have hstmt : ∀ (l₀ ns₀), ∀ a ∈ l₀, (!(dropNames q l₀ (attrNamespace m d) ns₀ dropNs).contains a.name.str) = true →
      (!isStmt m d a) = true := by
    intro l₀ ns₀ a ha hk
    cases hs : isStmt m d a with
    | false => rfl
    | true =>
      exfalso
      have : a.name.str ∈ dropNames q l₀ (attrNamespace m d) ns₀ dropNs := by
        simp only [dropNames, hq, Bool.false_eq_true, if_false, List.mem_map, List.mem_filter]
        refine ⟨a, ⟨ha, ?_⟩, rfl⟩
        unfold isDropped
        rw [attrNamespace_eq]
        unfold isStmt at hs
        simp only [Bool.or_eq_true]
        left; exact hs
      have hc : (dropNames q l₀ (attrNamespace m d) ns₀ dropNs).contains a.name.str = true := by
        simpa using this
      rw [hc] at hk; cases hk
  rw [filter_sub _ (fun a => !isStmt m d a) l' (hstmt l' ns'), filter_sub _ (fun a => !isStmt m d a) l (hstmt l ns),
      hothers]
  apply List.filter_congr
  intro a _
  rw [hmem]

theorem prepare_stmtPerm (q : Quirks) (hq : q.zipPairing = false) (m : NsMap) (d : Str) (l l' : List Attr)
    (ns ns' : OD) (hp : l'.Perm l)
    (hothers : l'.filter (fun a => !isStmt m d a) = l.filter (fun a => !isStmt m d a))
    (dyn : List (Option Tok × Tok)) (i18n : List (Str × Option Str)) :
    prepareAttributes q l' dyn i18n (attrNamespace m d) ns' dropNs =
    prepareAttributes q l dyn i18n (attrNamespace m d) ns dropNs := by
  unfold prepareAttributes
  simp only []
  rw [init_fold_skip, init_fold_skip, kept_stmtPerm q hq m d l l' ns ns' hp hothers]

/-! ## the theorem -/

/-- two start tags that differ only in where their statement attributes are written: the same tag, the attribute
list of one is a permutation of the other's that keeps the non-statement attributes (namespace declarations included)
in their order, no statement is given twice, and `nsAttrs` is what `unpack_attributes` makes of the attributes. -/
structure StmtPerm (r : Bool) (e e' : Elem) : Prop where
  head : e'.head = e.head
  nsMap : e'.nsMap = e.nsMap
  perm : e'.tag.attrs.Perm e.tag.attrs
  others : e'.tag.attrs.filter (fun a => !isStmt e.nsMap e.ns a) = e.tag.attrs.filter (fun a => !isStmt e.nsMap e.ns a)
  distinct : ((e.tag.attrs.filter (isStmt e.nsMap e.ns)).map (attrKey e.nsMap e.ns)).Nodup
  wf : unpackAttributes e.tag.attrs e.nsMap e.ns r = .ok e.nsAttrs
  wf' : unpackAttributes e'.tag.attrs e'.nsMap e'.ns r = .ok e'.nsAttrs

theorem StmtPerm.ns_eq {r e e'} (h : StmtPerm r e e') : e'.ns = e.ns := congrArg Head.ns h.head

theorem StmtPerm.dict_perm {r e e'} (h : StmtPerm r e e') :
    e'.nsAttrs.Perm e.nsAttrs ∧ (e.nsAttrs.map (·.1)).Nodup := by
  have h1 := unpack_ok _ _ _ _ _ h.wf
  have h2 := unpack_ok _ _ _ _ _ h.wf'
  rw [h.nsMap, h.ns_eq] at h2
  have n1 : (e.nsAttrs.map (·.1)).Nodup := by rw [h1]; exact fileAll_keys_nodup _ _ _ _ List.nodup_nil
  have n2 : (e'.nsAttrs.map (·.1)).Nodup := by rw [h2]; exact fileAll_keys_nodup _ _ _ _ List.nodup_nil
  refine ⟨od_perm_of_get _ _ n1 n2 ?_, n1⟩
  intro k
  rw [h1, h2]
  exact nsGet_stmtPerm _ _ _ _ h.perm h.others h.distinct k

/-- **C01 (attribute order)** on the program builder: for two start tags that differ only in where their statement
attributes are written, `visit_element` builds the same node and leaves the same builder state (macros, slot lists,
whitespace, identifiers) — whenever it succeeds.  `kids`/`cs` are the visit of the children (any action). -/
theorem C01_element_order (c : BCfg) (hd : c.enableDataAttributes = false) (hq : c.q.zipPairing = false)
    (kids kids' : List Item → BM (List Node)) (r : Bool) (e e' : Elem) (end0 : Option Elem) (cs cs' : List Item)
    (h : StmtPerm r e e') (hk : kids' cs' = kids cs) (s : BState) (res : Node × BState)
    (hok : elementCore c kids e end0 cs s = .ok res) : elementCore c kids' e' end0 cs' s = .ok res := by
  unfold elementCore at hok ⊢
  simp only [bind] at hok ⊢
  cases hpre : elementPre c e s with
  | error err => rw [hpre] at hok; cases hok
  | ok pr =>
    obtain ⟨⟨ns, attrs⟩, s1⟩ := pr
    rw [hpre] at hok
    obtain ⟨hs, ha, hdec, v1, v2, v3⟩ := (elementPre_ok c e s s1 hd ns attrs).mp hpre
    subst s1
    subst attrs
    obtain ⟨hperm, hnd⟩ := h.dict_perm
    obtain ⟨ns', hdec', hp', hkeys⟩ := decodeNsAttrs_perm c.rx _ _ ns hperm hdec
    have hnd' : (ns'.map (·.1)).Nodup := by
      rw [List.Perm.nodup_iff (hp'.map _), hkeys]; exact hnd
    have hpre' : elementPre c e' s = .ok ((ns', e'.tag.attrs), s) := by
      rw [elementPre_ok c e' s s hd]
      refine ⟨rfl, rfl, hdec', ?_, ?_, ?_⟩
      · unfold validOK at v1 ⊢; rw [hp'.all_eq]; exact v1
      · unfold validOK at v2 ⊢; rw [hp'.all_eq]; exact v2
      · unfold validOK at v3 ⊢; rw [hp'.all_eq]; exact v3
    rw [hpre']
    simp only [] at hok ⊢
    have hget : nsGet ns' = nsGet ns := by
      funext k; exact nsGet_perm ns' ns hp' hnd' k
    have hprep : (fun dyn i18n => prepareAttributes c.q e'.tag.attrs dyn i18n (attrNamespace e'.nsMap e'.ns) ns' dropNs) =
        (fun dyn i18n => prepareAttributes c.q e.tag.attrs dyn i18n (attrNamespace e.nsMap e.ns) ns dropNs) := by
      funext dyn i18n
      rw [h.nsMap, h.ns_eq]
      exact prepare_stmtPerm c.q hq _ _ _ _ ns ns' h.perm h.others dyn i18n
    rw [hk, h.head, hget, hprep]
    exact hok

/-! ## lifting to item trees -/

/-- `m'` succeeds with the same result whenever `m` succeeds -/
def BLe {α} (m m' : BM α) : Prop := ∀ s res, m s = .ok res → m' s = .ok res

theorem BLe.refl {α} (m : BM α) : BLe m m := fun _ _ h => h

theorem BLe.bind {α β} (m m' : BM α) (k k' : α → BM β) (h1 : BLe m m') (h2 : ∀ a, BLe (k a) (k' a)) :
    BLe (m >>= k) (m' >>= k') := by
  intro s res h
  simp only [Bind.bind] at h ⊢
  cases hm : m s with
  | error e => rw [hm] at h; cases h
  | ok p =>
    obtain ⟨a, s1⟩ := p
    rw [hm] at h
    rw [h1 s (a, s1) hm]
    exact h2 a s1 res h

theorem elementBody_mono (c : BCfg) (kids kids' : BM (List Node)) (hk : BLe kids kids') (hd : Head) (end0 : Option Elem)
    (get : Str × Str → Option Tok) (prep : List (Option Tok × Tok) → List (Str × Option Str) → Option (List PAttr)) :
    BLe (elementBody c kids hd end0 get prep) (elementBody c kids' hd end0 get prep) := by
  unfold elementBody
  exact BLe.bind _ _ _ _ (BLe.refl _) (fun post => BLe.bind _ _ _ _ hk (fun body => BLe.refl _))

theorem elementCore_mono (c : BCfg) (kids kids' : List Item → BM (List Node)) (e : Elem) (end0 : Option Elem)
    (cs cs' : List Item) (hk : BLe (kids cs) (kids' cs')) :
    BLe (elementCore c kids e end0 cs) (elementCore c kids' e end0 cs') := by
  unfold elementCore
  apply BLe.bind _ _ _ _ (BLe.refl _)
  intro pr
  exact elementBody_mono c _ _ hk _ _ _ _

/-- `C01_element_order` with related (not necessarily equal) visits of the children -/
theorem C01_element_order' (c : BCfg) (hd : c.enableDataAttributes = false) (hq : c.q.zipPairing = false)
    (kids kids' : List Item → BM (List Node)) (r : Bool) (e e' : Elem) (end0 : Option Elem) (cs cs' : List Item)
    (h : StmtPerm r e e') (hk : BLe (kids cs) (kids' cs')) :
    BLe (elementCore c kids e end0 cs) (elementCore c kids' e' end0 cs') := by
  intro s res hok
  have h1 := C01_element_order c hd hq kids kids r e e' end0 cs cs h rfl s res hok
  exact elementCore_mono c kids kids' e' end0 cs cs' hk s res h1

mutual
/-- two item trees that differ only in where statement attributes are written inside start tags -/
inductive ItemRel (r : Bool) : Item → Item → Prop
  | same (it : Item) : ItemRel r it it
  | startTag (e e' : Elem) : StmtPerm r e e' → ItemRel r (.startTag e) (.startTag e')
  | element (e e' : Elem) (end0 : Option Elem) (cs cs' : List Item) :
      (e' = e ∨ StmtPerm r e e') → ItemsRel r cs cs' → ItemRel r (.element e end0 cs) (.element e' end0 cs')
inductive ItemsRel (r : Bool) : List Item → List Item → Prop
  | nil : ItemsRel r [] []
  | cons (a b : Item) (as bs : List Item) : ItemRel r a b → ItemsRel r as bs → ItemsRel r (a :: as) (b :: bs)
end

theorem visitItems_rel (c : BCfg) (r : Bool) (f : Nat)
    (hitem : ∀ it it', ItemRel r it it' → BLe (visitItem c f it) (visitItem c f it')) :
    ∀ its its', ItemsRel r its its' → BLe (visitItems c f its) (visitItems c f its') := by
  intro its
  induction its with
  | nil => intro its' hrel; cases hrel; exact BLe.refl _
  | cons a as ih =>
    intro its' hrel
    cases hrel with
    | cons _ b _ bs hab hrest =>
      unfold visitItems
      exact BLe.bind _ _ _ _ (hitem a b hab) (fun n => BLe.bind _ _ _ _ (ih bs hrest) (fun ns => BLe.refl _))

theorem visit_rel (c : BCfg) (hd : c.enableDataAttributes = false) (hq : c.q.zipPairing = false) (r : Bool) :
    ∀ f, (∀ it it', ItemRel r it it' → BLe (visitItem c f it) (visitItem c f it')) := by
  intro f
  induction f with
  | zero =>
    intro it it' _ s res h
    simp [visitItem, bCrash] at h
  | succ f ihf =>
    intro it it' hrel
    cases hrel with
    | same => exact BLe.refl _
    | startTag e e' hp =>
      simp only [visitItem]
      exact BLe.bind _ _ _ _ (C01_element_order' c hd hq _ _ r e e' none [] [] hp (BLe.refl _)) (fun n => BLe.refl _)
    | element e e' end0 cs cs' he hcs =>
      simp only [visitItem]
      have hk := visitItems_rel c r f ihf cs cs' hcs
      apply BLe.bind _ _ _ _ _ (fun n => BLe.refl _)
      cases he with
      | inl heq => subst heq; exact elementCore_mono c _ _ _ _ _ _ hk
      | inr hp => exact C01_element_order' c hd hq _ _ r e e' end0 cs cs' hp hk

/-- **C01 (attribute order) for whole documents**, on the program builder: two parsed documents that differ only in
where statement attributes are written inside their start tags — at any number of elements, at any depth — build the
same program: the same body node and the same macros, whenever the first one builds. -/
theorem C01_program_order (c : BCfg) (hd : c.enableDataAttributes = false) (hq : c.q.zipPairing = false) (r : Bool)
    (f : Nat) (its its' : List Item) (hrel : ItemsRel r its its') (s : BState) (res : List Node × BState)
    (h : visitItems c f its s = .ok res) : visitItems c f its' s = .ok res :=
  visitItems_rel c r f (visit_rel c hd hq r f) its its' hrel s res h

/-! ## the hypotheses are met by what the parser produces -/

/-- every element record the parser builds satisfies the `wf` field of `StmtPerm` -/
theorem parseTag_wf (rx : Rx) (t : Tok) (m m' : NsMap) (r : Bool) (e : Elem)
    (h : parseTag rx t m r = .ok (e, m')) : unpackAttributes e.tag.attrs e.nsMap e.ns r = .ok e.nsAttrs := by
  unfold parseTag at h
  split at h
  · cases h
  · rename_i g _
    simp only [bind, Except.bind] at h
    split at h
    · cases h
    · rename_i nsAttrs hu
      simp only [pure, Except.pure, Except.ok.injEq, Prod.mk.injEq] at h
      obtain ⟨rfl, _⟩ := h
      exact hu

private def tk (s : String) (pos : Nat) : Tok := { str := lit s, pos := pos }
private def at_ (name value : String) (pos : Nat) : Attr :=
  { space := tk " " pos, name := tk name (pos + 1), eq := tk "=" (pos + 1 + name.length), quote := tk "\"" 0,
    value := tk value (pos + 3 + name.length) }
private def exAttrs : List Attr := [at_ "class" "a" 2, at_ "tal:content" "x" 12, at_ "tal:condition" "y" 28]
private def exAttrs' : List Attr := [at_ "tal:condition" "y" 28, at_ "class" "a" 2, at_ "tal:content" "x" 12]
private def exElem (attrs : List Attr) : Elem :=
  { tag := { pfx := tk "<" 0, name := tk "p" 1, suffix := some (tk ">" 46), space := some (tk "" 46), attrs := attrs,
             spans := [], restLen := 0 },
    ns := XML_NS, nsAttrs := fileAll defaultNamespaces XML_NS [] attrs, nsNames := [], nsMap := defaultNamespaces }

/-- non-vacuity: `<p class="a" tal:content="x" tal:condition="y">` and the same tag with the condition written first
are related (the attribute records carry their own source positions) -/
example : StmtPerm true (exElem exAttrs) (exElem exAttrs') where
  head := rfl
  nsMap := rfl
  perm := List.isPerm_iff.mp (by decide +kernel)
  others := by decide +kernel
  distinct := by decide +kernel
  wf := by rfl
  wf' := by rfl

end ChamVerif

import ChamProofs.Props.C06Regex
/-! # C06 — the candidate loop of the Interpolator ends at the expression's own closing brace

`Interpolator.__call__` finds `${`, lets the greedy regex run to the *last* `}` of the text, and then shrinks the
candidate from the right, one `}` at a time, until the expression compiles.  `C06_candidate_own_brace`: in
`pre ++ "${" ++ e ++ "}" ++ post` — whatever braces `e` and `post` contain — if every longer candidate `e ++ "}" ++ x`
(`x` a piece of `post` that ends before one of its `}`) is rejected with an `ExpressionError` and `e` itself compiles, the
loop returns exactly `e`, and consumes exactly `${e}`.  (`C06_own_brace` shows the premise about longer candidates for
every `e` with balanced brackets and closed string literals.)  `C06_interp_step` lifts this to `compileInterp`: literal
text before, the expression part, then the interpolation of `post`. -/
namespace ChamVerif.C06Loop
open ChamVerif

theorem drop_pre2 (pre : Str) (a b : Nat) (rest : Str) : (pre ++ a :: b :: rest).drop (pre.length + 2) = rest := by
  induction pre with
  | nil => rfl
  | cons c r ih => simpa using ih

theorem drop_pre0 (pre rest : Str) : (pre ++ rest).drop pre.length = rest := by
  induction pre with
  | nil => rfl
  | cons c r ih => simpa using ih

theorem take_pre (b1 rest : Str) : (b1 ++ rest).take b1.length = b1 := by
  induction b1 with
  | nil => simp
  | cons c r ih => simp [ih]

/-- the last `}` of a text that has one -/
theorem exists_last_split : ∀ (post : Str), 125 ∈ post → ∃ x y, post = x ++ 125 :: y ∧ 125 ∉ y := by
  intro post
  induction post with
  | nil => intro h; cases h
  | cons c r ih =>
    intro h
    by_cases hr : 125 ∈ r
    · obtain ⟨x, y, hxy, hy⟩ := ih hr
      exact ⟨c :: x, y, by rw [hxy]; rfl, hy⟩
    · have hc : c = 125 := by
        rcases List.mem_cons.mp h with h | h
        · exact h.symm
        · exact absurd h hr
      exact ⟨[], r, by rw [hc]; rfl, hr⟩

variable (c : TCfg)

/-- the configuration uses the regex the theorems are about (true of the regenerated `Rx.live`: `tie_bracesReq`) -/
structure RxOk : Prop where
  re : c.rx.bracesReq = bracesReqShape
  groups : c.rx.bracesReqGroups = [("expression", 2)]

theorem bracesSearch_eq (h : RxOk c) (pre b1 b2 : Str) (hpre : 36 ∉ pre) (hb2 : 125 ∉ b2) :
    bracesSearch c.rx true (pre ++ 36 :: 123 :: (b1 ++ 125 :: b2)) =
      some (pre.length, { pos := pre.length + 2 + b1.length + 1,
                          caps := [(1, pre.length + 1, pre.length + 2 + b1.length + 1),
                                   (2, pre.length + 2, pre.length + 2 + b1.length)] }) := by
  unfold bracesSearch
  simp only [if_true, h.re]
  exact search_braces Gen.uni pre b1 b2 hpre hb2

/-- one round of the candidate loop: the candidate is everything up to the last `}`; accepted, or cut there -/
theorem candidate_round (h : RxOk c) (f k pos ms0 : Nat) (pre b1 b2 : Str) (hpre : 36 ∉ pre) (hb2 : 125 ∉ b2)
    (hb1 : b1 ≠ []) :
    candidate c (f + 1) { str := pre ++ 36 :: 123 :: (b1 ++ 125 :: b2), pos := pos } ms0 true false (k + 1) =
      match compileTales c f { str := b1, pos := pos + (pre.length + 2) } with
      | .ok e => pure (.expr e { str := b1, pos := pos + (pre.length + 2) } b1, b1.length + 3)
      | .error (.template "ExpressionError" msg tok) =>
        match bracesSearch c.rx true (36 :: 123 :: b1) with
        | none => .error (.template "ExpressionError" msg tok)
        | some _ => candidate c f { str := 36 :: 123 :: b1, pos := pos + pre.length } 0 true false k
      | .error e => .error e := by
  have hgrp : tokGroup c.rx.bracesReqGroups
      { pos := pre.length + 2 + b1.length + 1,
        caps := [(1, pre.length + 1, pre.length + 2 + b1.length + 1), (2, pre.length + 2, pre.length + 2 + b1.length)] }
      { str := pre ++ 36 :: 123 :: (b1 ++ 125 :: b2), pos := pos } "expression" =
      some { str := b1, pos := pos + (pre.length + 2) } := by
    simp only [tokGroup, grpSpan, h.groups, List.find?, beq_self_eq_true, Option.map]
    have h12 : ((1 : Nat) == 2) = false := rfl
    simp only [h12, Tok.slice]
    rw [drop_pre2]
    have : pre.length + 2 + b1.length - (pre.length + 2) = b1.length := by omega
    rw [this, take_pre]
  have hvar : tokGroup c.rx.bracesReqGroups
      { pos := pre.length + 2 + b1.length + 1,
        caps := [(1, pre.length + 1, pre.length + 2 + b1.length + 1), (2, pre.length + 2, pre.length + 2 + b1.length)] }
      { str := pre ++ 36 :: 123 :: (b1 ++ 125 :: b2), pos := pos } "variable" = none := by
    simp only [tokGroup, grpSpan, h.groups, List.find?]
    rfl
  have hne : (b1.isEmpty) = false := by cases b1 with | nil => exact absurd rfl hb1 | cons _ _ => rfl
  have hslice : Tok.slice { str := pre ++ 36 :: 123 :: (b1 ++ 125 :: b2), pos := pos } pre.length
      (some (pre.length + 2 + b1.length + 1 - 1)) = { str := 36 :: 123 :: b1, pos := pos + pre.length } := by
    simp only [Tok.slice]
    rw [drop_pre0]
    have : pre.length + 2 + b1.length + 1 - 1 - pre.length = b1.length + 2 := by omega
    rw [this]
    simp only [List.take_succ_cons, take_pre]
  rw [candidate]
  simp only [bracesSearch_eq c h pre b1 b2 hpre hb2, if_true, hgrp, hvar, hne, Bool.false_eq_true, if_false, hslice]
  have hlen : pre.length + 2 + b1.length + 1 - pre.length = b1.length + 3 := by omega
  simp only [hlen]
  cases compileTales c f { str := b1, pos := pos + (pre.length + 2) } with
  | ok e => rfl
  | error er =>
    cases er with
    | template cls msg tok =>
      by_cases hcls : cls = "ExpressionError"
      · subst hcls; rfl
      · split
        · rename_i heq; cases heq
        · rename_i heq
          simp only [Except.error.injEq, CErr.template.injEq] at heq
          exact absurd heq.1 hcls
        · rename_i heq1
          cases heq1
          split
          · rename_i heq; cases heq
          · rename_i heq
            simp only [Except.error.injEq, CErr.template.injEq] at heq
            exact absurd heq.1 hcls
          · rename_i heq2
            cases heq2
            rfl
    | templateNoSrc cls msg tok => rfl
    | crash cls => rfl

/-- what it means that every candidate longer than `e` is rejected: compiling `e ++ "}" ++ x`, for every `x` that ends
before a `}` of `post`, gives an `ExpressionError` (for every fuel the loop can use: `g0 ≤ g ≤ f`) -/
def LongerRejected (g0 f : Nat) (e post : Str) (p0 : Nat) : Prop :=
  ∀ g x y, g0 ≤ g → g ≤ f → post = x ++ 125 :: y →
    ∃ msg tok, compileTales c g { str := e ++ 125 :: x, pos := p0 } = .error (.template "ExpressionError" msg tok)

/-- **C06 (the loop ends at the expression's own closing brace)** -/
theorem C06_candidate_own_brace (h : RxOk c) (g0 : Nat) (e : Str) (he : e ≠ []) :
    ∀ (n : Nat) (post pre : Str) (pos ms0 f k : Nat), post.length ≤ n → 36 ∉ pre → g0 + post.length ≤ f → post.length ≤ k →
      LongerRejected c g0 f e post (pos + (pre.length + 2)) →
      (∀ g, g0 ≤ g → g ≤ f → ∃ te, compileTales c g { str := e, pos := pos + (pre.length + 2) } = .ok te) →
      ∃ g te, g0 ≤ g ∧ g ≤ f ∧ compileTales c g { str := e, pos := pos + (pre.length + 2) } = .ok te ∧
        candidate c (f + 1) { str := pre ++ 36 :: 123 :: (e ++ 125 :: post), pos := pos } ms0 true false (k + 1) =
          .ok (.expr te { str := e, pos := pos + (pre.length + 2) } e, e.length + 3) := by
  intro n
  induction n with
  | zero =>
    intro post pre pos ms0 f k hn hpre hf hk hrej hacc
    have hp : post = [] := List.eq_nil_of_length_eq_zero (by omega)
    subst hp
    obtain ⟨te, hte⟩ := hacc f (by simpa using hf) (Nat.le_refl _)
    refine ⟨f, te, by simpa using hf, Nat.le_refl _, hte, ?_⟩
    rw [candidate_round c h f k pos ms0 pre e [] hpre (by simp) he, hte]
    rfl
  | succ n ih =>
    intro post pre pos ms0 f k hn hpre hf hk hrej hacc
    by_cases hmem : 125 ∈ post
    · obtain ⟨x, y, hxy, hy⟩ := exists_last_split post hmem
      have hlen : post.length = x.length + 1 + y.length := by rw [hxy]; simp; omega
      obtain ⟨msg, tok, hrj⟩ := hrej f x y (by omega) (Nat.le_refl _) hxy
      have hb1 : e ++ 125 :: x ≠ [] := by cases e <;> simp
      have hround := candidate_round c h f k pos ms0 pre (e ++ 125 :: x) y hpre hy hb1
      have hassoc : pre ++ 36 :: 123 :: (e ++ 125 :: post) = pre ++ 36 :: 123 :: ((e ++ 125 :: x) ++ 125 :: y) := by
        rw [hxy]; simp
      rw [hassoc, hround, hrj]
      simp only
      -- the shorter text still has a `}`: the loop goes on, with `pre = []`
      have hs : bracesSearch c.rx true (36 :: 123 :: (e ++ 125 :: x)) ≠ none := by
        by_cases hx : 125 ∈ x
        · obtain ⟨x1, x2, hx12, hx2⟩ := exists_last_split x hx
          have := bracesSearch_eq c h [] (e ++ 125 :: x1) x2 (by simp) hx2
          have h2 : 36 :: 123 :: (e ++ 125 :: x) = [] ++ 36 :: 123 :: ((e ++ 125 :: x1) ++ 125 :: x2) := by
            rw [hx12]; simp
          rw [h2, this]; simp
        · have := bracesSearch_eq c h [] e x (by simp) hx
          simp only [List.nil_append] at this
          rw [this]; simp
      cases hbs : bracesSearch c.rx true (36 :: 123 :: (e ++ 125 :: x)) with
      | none => exact absurd hbs hs
      | some r =>
        simp only
        cases f with
        | zero => omega
        | succ f' =>
          cases k with
          | zero => omega
          | succ k' =>
            have hrej' : LongerRejected c g0 f' e x (pos + pre.length + (([] : Str).length + 2)) := by
              intro g x' y' hg hg2 hx'
              have := hrej g x' (y' ++ 125 :: y) hg (by omega) (by rw [hxy, hx']; simp)
              simpa [Nat.add_assoc] using this
            have hacc' : ∀ g, g0 ≤ g → g ≤ f' → ∃ te, compileTales c g { str := e, pos := pos + pre.length + (([] : Str).length + 2) } = .ok te := by
              intro g hg hg2
              simpa [Nat.add_assoc] using hacc g hg (by omega)
            obtain ⟨g, te, hg, hg2, hte, hcand⟩ := ih x [] (pos + pre.length) 0 f' k' (by omega) (by simp) (by omega) (by omega) hrej' hacc'
            refine ⟨g, te, hg, by omega, by simpa [Nat.add_assoc] using hte, ?_⟩
            simp only [List.nil_append] at hcand
            rw [hcand]
            simp [Nat.add_assoc]
    · obtain ⟨te, hte⟩ := hacc f (by omega) (Nat.le_refl _)
      refine ⟨f, te, by omega, Nat.le_refl _, hte, ?_⟩
      rw [candidate_round c h f k pos ms0 pre e post hpre hmem he, hte]
      rfl

theorem trailing_dollars_none (pre : Str) (hpre : 36 ∉ pre) : (pre.reverse.takeWhile (· == 36)).length = 0 := by
  cases hr : pre.reverse with
  | nil => rfl
  | cons a r =>
    have ha : a ∈ pre := by
      have : a ∈ pre.reverse := by rw [hr]; simp
      simpa using this
    have hne : a ≠ 36 := fun h => hpre (h ▸ ha)
    have hb : (a == 36) = false := by simpa using hne
    simp [List.takeWhile, hb]

theorem undouble_id (s : Str) (h : 36 ∉ s) : undoubleDollar s = s := by
  induction s with
  | nil => rfl
  | cons c s ih =>
    have hc : c ≠ 36 := fun e => h (by simp [e])
    have hs : 36 ∉ s := fun e => h (by simp [e])
    rw [undoubleDollar.eq_def]
    split
    · simp_all
    · rename_i heq; simp only [List.cons.injEq] at heq; rw [← heq.1, ← heq.2, ih hs]
    · simp_all

/-- **C06 (one `${…}` of a text)**: literal text without `$`, then `${e}`, then anything: the parts are the literal, the
expression `e` — ended at its own closing brace — and the parts of what follows `${e}` -/
theorem C06_interp_step (h : RxOk c) (g0 : Nat) (e : Str) (he : e ≠ []) (pre post : Str) (pos f : Nat)
    (hpre : 36 ∉ pre) (hf : g0 + post.length ≤ f)
    (hrej : LongerRejected c g0 f e post (pos + (pre.length + 2)))
    (hacc : ∀ g, g0 ≤ g → g ≤ f → ∃ te, compileTales c g { str := e, pos := pos + (pre.length + 2) } = .ok te) :
    ∃ g te, g0 ≤ g ∧ g ≤ f ∧ compileTales c g { str := e, pos := pos + (pre.length + 2) } = .ok te ∧
      compileInterp c (f + 2) { str := pre ++ 36 :: 123 :: (e ++ 125 :: post), pos := pos } true false =
        (compileInterp c (f + 1) { str := post, pos := pos + pre.length + (e.length + 3) } true false).map
          (fun rest => (if pre.isEmpty then [] else [IPart.lit pre]) ++
            [IPart.expr te { str := e, pos := pos + (pre.length + 2) } e] ++ rest) := by
  obtain ⟨g, te, hg, hg2, hte, hcand⟩ := C06_candidate_own_brace c h g0 e he post.length post pre pos pre.length f
    ((pre ++ 36 :: 123 :: (e ++ 125 :: post)).length) (Nat.le_refl _) hpre hf (by simp; omega) hrej hacc
  refine ⟨g, te, hg, hg2, hte, ?_⟩
  -- where the first `${` is
  have hsearch : ∃ st, bracesSearch c.rx true (pre ++ 36 :: 123 :: (e ++ 125 :: post)) = some (pre.length, st) := by
    by_cases hm : 125 ∈ post
    · obtain ⟨x, y, hxy, hy⟩ := exists_last_split post hm
      have := bracesSearch_eq c h pre (e ++ 125 :: x) y hpre hy
      have h2 : pre ++ 36 :: 123 :: (e ++ 125 :: post) = pre ++ 36 :: 123 :: ((e ++ 125 :: x) ++ 125 :: y) := by
        rw [hxy]; simp
      exact ⟨_, by rw [h2, this]⟩
    · exact ⟨_, bracesSearch_eq c h pre e post hpre hm⟩
  obtain ⟨st, hst⟩ := hsearch
  have hnonempty : (pre ++ 36 :: 123 :: (e ++ 125 :: post)).isEmpty = false := by cases pre <;> rfl
  have hpart : (Tok.slice { str := pre ++ 36 :: 123 :: (e ++ 125 :: post), pos := pos } 0 (some pre.length)).str = pre := by
    simp only [Tok.slice, List.drop_zero, Nat.sub_zero]
    exact take_pre pre _
  have hslice1 : Tok.slice { str := pre ++ 36 :: 123 :: (e ++ 125 :: post), pos := pos } pre.length none =
      { str := 36 :: 123 :: (e ++ 125 :: post), pos := pos + pre.length } := by
    simp only [Tok.slice]
    rw [drop_pre0, List.take_of_length_le (by simp)]
  have h3 : (36 :: 123 :: (e ++ 125 :: post)).drop (e.length + 3) = post := by
    have : e.length + 3 = (e.length + 1) + 2 := by omega
    rw [this]
    simp only [List.drop_succ_cons]
    have : e ++ 125 :: post = (e ++ [125]) ++ post := by simp
    rw [this]
    have hl : e.length + 1 = (e ++ [125]).length := by simp
    rw [hl, drop_pre0]
  have htext' : Tok.slice (Tok.slice { str := pre ++ 36 :: 123 :: (e ++ 125 :: post), pos := pos } pre.length none) (e.length + 3) none =
      { str := post, pos := pos + pre.length + (e.length + 3) } := by
    rw [hslice1]
    simp only [Tok.slice]
    rw [h3, List.take_of_length_le (by simp; omega)]
  rw [compileInterp]
  have h01 : ((0 : Nat) == 1) = false := rfl
  simp only [hnonempty, Bool.false_eq_true, if_false, hst, hpart, trailing_dollars_none pre hpre, undouble_id pre hpre,
    Nat.zero_mod, h01, Bool.and_false]
  simp only [bind, Except.bind, hcand, htext', Except.map]
  cases compileInterp c (f + 1) { str := post, pos := pos + pre.length + (e.length + 3) } true false with
  | ok rest => cases pre <;> rfl
  | error er => rfl

end ChamVerif.C06Loop

namespace ChamVerif.C06Loop
open ChamVerif

/-- a configuration with the regenerated regexes -/
def c0 : TCfg := { rx := Rx.live, q := Quirks.current, oracle := [] }

theorem c0_ok : RxOk c0 := ⟨tie_bracesReq.1, tie_bracesReq.2⟩

def isExprErr : CRes TExpr → Bool
  | .error (.template cls _ _) => cls == "ExpressionError"
  | _ => false

def isOk : CRes TExpr → Bool
  | .ok _ => true
  | _ => false

theorem isExprErr_spec (r : CRes TExpr) (h : isExprErr r = true) :
    ∃ msg tok, r = .error (.template "ExpressionError" msg tok) := by
  cases r with
  | ok _ => cases h
  | error e =>
    cases e with
    | template cls msg tok =>
      have : cls = "ExpressionError" := by simpa [isExprErr] using h
      exact ⟨msg, tok, by rw [this]⟩
    | templateNoSrc _ _ _ => cases h
    | crash _ => cases h

theorem isOk_spec (r : CRes TExpr) (h : isOk r = true) : ∃ te, r = .ok te := by
  cases r with
  | ok te => exact ⟨te, rfl⟩
  | error _ => cases h

/-- non-vacuity: the premises hold for the text `abc${x}}` — expression `x`, one more `}` after it: the longer candidate
`x}` is rejected and `x` compiles, at the fuels the loop uses (kernel evaluation of the model's compiler on the
regenerated regexes) -/
example : LongerRejected c0 3 4 [120] [125] 3 ∧
    (∀ g, 3 ≤ g → g ≤ 4 → ∃ te, compileTales c0 g { str := [120], pos := 3 } = .ok te) := by
  constructor
  · intro g x y h1 h2 hxy
    have hx : x = [] := by
      cases x with
      | nil => rfl
      | cons a r => cases r <;> simp at hxy
    subst hx
    have hg : g = 3 ∨ g = 4 := by omega
    rcases hg with rfl | rfl
    · exact isExprErr_spec _ (by decide +kernel)
    · exact isExprErr_spec _ (by decide +kernel)
  · intro g h1 h2
    have hg : g = 3 ∨ g = 4 := by omega
    rcases hg with rfl | rfl
    · exact isOk_spec _ (by decide +kernel)
    · exact isOk_spec _ (by decide +kernel)

end ChamVerif.C06Loop

import ChamProofs.Props.C06Regex
/-! # C06 — the candidate loop of the Interpolator ends at the expression's own closing brace

`Interpolator.__call__` finds `${`, lets the greedy regex run to the *last* `}` of the text, and then shrinks the
candidate from the right, one `}` at a time, until the expression compiles.  `C06_candidate_own_brace`: in
`pre ++ "${" ++ e ++ "}" ++ post` — whatever braces `e` and `post` contain — if every longer candidate `e ++ "}" ++ x`
(`x` a piece of `post` that ends before one of its `}`) is rejected with an `ExpressionError` and `e` itself compiles, the
loop returns exactly `e`, and consumes exactly `${e}`.  (`C06_own_brace` shows the premise about longer candidates for
every `e` with balanced brackets and closed string literals.)  `C06_interp_step` lifts this to `compileInterp`: literal
text before, the expression part, then the interpolation of `post`. -/
namespace ChamVerif.C06Loop
open ChamVerif

theorem drop_pre2 (pre : Str) (a b : Nat) (rest : Str) : (pre ++ a :: b :: rest).drop (pre.length + 2) = rest := by
  induction pre with
  | nil => rfl
  | cons c r ih => simpa using ih

theorem drop_pre0 (pre rest : Str) : (pre ++ rest).drop pre.length = rest := by
  induction pre with
  | nil => rfl
  | cons c r ih => simpa using ih

theorem take_pre (b1 rest : Str) : (b1 ++ rest).take b1.length = b1 := by
  induction b1 with
  | nil => simp
  | cons c r ih => simp [ih]

/-- the last `}` of a text that has one -/
theorem exists_last_split : ∀ (post : Str), 125 ∈ post → ∃ x y, post = x ++ 125 :: y ∧ 125 ∉ y := by
  intro post
  induction post with
  | nil => intro h; cases h
  | cons c r ih =>
    intro h
    by_cases hr : 125 ∈ r
    · obtain ⟨x, y, hxy, hy⟩ := ih hr
      exact ⟨c :: x, y, by rw [hxy]; rfl, hy⟩
    · have hc : c = 125 := by
        rcases List.mem_cons.mp h with h | h
        · exact h.symm
        · exact absurd h hr
      exact ⟨[], r, by rw [hc]; rfl, hr⟩

variable (c : TCfg)

/-- the configuration uses the regex the theorems are about (true of the regenerated `Rx.live`: `tie_bracesReq`) -/
structure RxOk : Prop where
  re : c.rx.bracesReq = bracesReqShape
  groups : c.rx.bracesReqGroups = [("expression", 2)]
  ent : c.rx.entity2Re = entity2Shape

theorem bracesSearch_eq (h : RxOk c) (pre b1 b2 : Str) (hpre : NoStart pre) (hb2 : 125 ∉ b2) :
    bracesSearch c.rx true (pre ++ 36 :: 123 :: (b1 ++ 125 :: b2)) =
      some (pre.length, { pos := pre.length + 2 + b1.length + 1,
                          caps := [(1, pre.length + 1, pre.length + 2 + b1.length + 1),
                                   (2, pre.length + 2, pre.length + 2 + b1.length)] }) := by
  unfold bracesSearch
  simp only [if_true, h.re]
  exact search_braces Gen.uni pre b1 b2 hpre hb2

/-- one round of the candidate loop: the candidate is everything up to the last `}`; accepted, or cut there -/
theorem candidate_round (h : RxOk c) (f k pos ms0 : Nat) (pre b1 b2 : Str) (decode : Bool) (hpre : NoStart pre) (hb2 : 125 ∉ b2)
    (hb1 : b1 ≠ []) (hamp : decode = true → 38 ∉ b1) :
    candidate c (f + 1) { str := pre ++ 36 :: 123 :: (b1 ++ 125 :: b2), pos := pos } ms0 true decode (k + 1) =
      match compileTales c f { str := b1, pos := pos + (pre.length + 2) } with
      | .ok e => pure (.expr e { str := b1, pos := pos + (pre.length + 2) } b1, b1.length + 3)
      | .error (.template "ExpressionError" msg tok) =>
        match bracesSearch c.rx true (36 :: 123 :: b1) with
        | none => .error (.template "ExpressionError" msg tok)
        | some _ => candidate c f { str := 36 :: 123 :: b1, pos := pos + pre.length } 0 true decode k
      | .error e => .error e := by
  have hgrp : tokGroup c.rx.bracesReqGroups
      { pos := pre.length + 2 + b1.length + 1,
        caps := [(1, pre.length + 1, pre.length + 2 + b1.length + 1), (2, pre.length + 2, pre.length + 2 + b1.length)] }
      { str := pre ++ 36 :: 123 :: (b1 ++ 125 :: b2), pos := pos } "expression" =
      some { str := b1, pos := pos + (pre.length + 2) } := by
    simp only [tokGroup, grpSpan, h.groups, List.find?, beq_self_eq_true, Option.map]
    have h12 : ((1 : Nat) == 2) = false := rfl
    simp only [h12, Tok.slice]
    rw [drop_pre2]
    have : pre.length + 2 + b1.length - (pre.length + 2) = b1.length := by omega
    rw [this, take_pre]
  have hvar : tokGroup c.rx.bracesReqGroups
      { pos := pre.length + 2 + b1.length + 1,
        caps := [(1, pre.length + 1, pre.length + 2 + b1.length + 1), (2, pre.length + 2, pre.length + 2 + b1.length)] }
      { str := pre ++ 36 :: 123 :: (b1 ++ 125 :: b2), pos := pos } "variable" = none := by
    simp only [tokGroup, grpSpan, h.groups, List.find?]
    rfl
  have hne : (b1.isEmpty) = false := by cases b1 with | nil => exact absurd rfl hb1 | cons _ _ => rfl
  have hslice : Tok.slice { str := pre ++ 36 :: 123 :: (b1 ++ 125 :: b2), pos := pos } pre.length
      (some (pre.length + 2 + b1.length + 1 - 1)) = { str := 36 :: 123 :: b1, pos := pos + pre.length } := by
    simp only [Tok.slice]
    rw [drop_pre0]
    have : pre.length + 2 + b1.length + 1 - 1 - pre.length = b1.length + 2 := by omega
    rw [this]
    simp only [List.take_succ_cons, take_pre]
  have hdec : (if decode = true then (decodeEntities c.rx b1).map (fun s => ({ str := s, pos := pos + (pre.length + 2) } : Tok))
      else some ({ str := b1, pos := pos + (pre.length + 2) } : Tok)) = some { str := b1, pos := pos + (pre.length + 2) } := by
    cases decode with
    | false => rfl
    | true => simp only [if_true, decodeEntities_no_amp c.rx h.ent b1 (hamp rfl), Option.map]
  rw [candidate]
  simp only [bracesSearch_eq c h pre b1 b2 hpre hb2, if_true, hgrp, hvar, hne, Bool.false_eq_true, if_false, hslice, hdec]
  have hlen : pre.length + 2 + b1.length + 1 - pre.length = b1.length + 3 := by omega
  simp only [hlen]
  cases compileTales c f { str := b1, pos := pos + (pre.length + 2) } with
  | ok e => rfl
  | error er =>
    cases er with
    | template cls msg tok =>
      by_cases hcls : cls = "ExpressionError"
      · subst hcls; rfl
      · split
        · rename_i heq; cases heq
        · rename_i heq
          simp only [Except.error.injEq, CErr.template.injEq] at heq
          exact absurd heq.1 hcls
        · rename_i heq1
          cases heq1
          split
          · rename_i heq; cases heq
          · rename_i heq
            simp only [Except.error.injEq, CErr.template.injEq] at heq
            exact absurd heq.1 hcls
          · rename_i heq2
            cases heq2
            rfl
    | templateNoSrc cls msg tok => rfl
    | crash cls => rfl

/-- what it means that every candidate longer than `e` is rejected: compiling `e ++ "}" ++ x`, for every `x` that ends
before a `}` of `post`, gives an `ExpressionError` (for every fuel the loop can use: `g0 ≤ g ≤ f`) -/
def LongerRejected (g0 f : Nat) (e post : Str) (p0 : Nat) : Prop :=
  ∀ g x y, g0 ≤ g → g ≤ f → post = x ++ 125 :: y →
    ∃ msg tok, compileTales c g { str := e ++ 125 :: x, pos := p0 } = .error (.template "ExpressionError" msg tok)

/-- **C06 (the loop ends at the expression's own closing brace)** -/
theorem C06_candidate_own_brace (h : RxOk c) (g0 : Nat) (e : Str) (he : e ≠ []) (decode : Bool) (hae : decode = true → 38 ∉ e) :
    ∀ (n : Nat) (post pre : Str) (pos ms0 f k : Nat), post.length ≤ n → NoStart pre → g0 + post.length ≤ f → post.length ≤ k →
      (decode = true → 38 ∉ post) →
      LongerRejected c g0 f e post (pos + (pre.length + 2)) →
      (∀ g, g0 ≤ g → g ≤ f → ∃ te, compileTales c g { str := e, pos := pos + (pre.length + 2) } = .ok te) →
      ∃ g te, g0 ≤ g ∧ g ≤ f ∧ compileTales c g { str := e, pos := pos + (pre.length + 2) } = .ok te ∧
        candidate c (f + 1) { str := pre ++ 36 :: 123 :: (e ++ 125 :: post), pos := pos } ms0 true decode (k + 1) =
          .ok (.expr te { str := e, pos := pos + (pre.length + 2) } e, e.length + 3) := by
  intro n
  induction n with
  | zero =>
    intro post pre pos ms0 f k hn hpre hf hk hap hrej hacc
    have hp : post = [] := List.eq_nil_of_length_eq_zero (by omega)
    subst hp
    obtain ⟨te, hte⟩ := hacc f (by simpa using hf) (Nat.le_refl _)
    refine ⟨f, te, by simpa using hf, Nat.le_refl _, hte, ?_⟩
    rw [candidate_round c h f k pos ms0 pre e [] decode hpre (by simp) he hae, hte]
    rfl
  | succ n ih =>
    intro post pre pos ms0 f k hn hpre hf hk hap hrej hacc
    by_cases hmem : 125 ∈ post
    · obtain ⟨x, y, hxy, hy⟩ := exists_last_split post hmem
      have hlen : post.length = x.length + 1 + y.length := by rw [hxy]; simp; omega
      obtain ⟨msg, tok, hrj⟩ := hrej f x y (by omega) (Nat.le_refl _) hxy
      have hb1 : e ++ 125 :: x ≠ [] := by cases e <;> simp
      have hax : decode = true → 38 ∉ x := fun hd hm => hap hd (by rw [hxy]; simp [hm])
      have hamp1 : decode = true → 38 ∉ e ++ 125 :: x := by
        intro hd hm
        rcases List.mem_append.mp hm with hm | hm
        · exact hae hd hm
        · rcases List.mem_cons.mp hm with hm | hm
          · cases hm
          · exact hax hd hm
      have hround := candidate_round c h f k pos ms0 pre (e ++ 125 :: x) y decode hpre hy hb1 hamp1
      have hassoc : pre ++ 36 :: 123 :: (e ++ 125 :: post) = pre ++ 36 :: 123 :: ((e ++ 125 :: x) ++ 125 :: y) := by
        rw [hxy]; simp
      rw [hassoc, hround, hrj]
      simp only
      -- the shorter text still has a `}`: the loop goes on, with `pre = []`
      have hs : bracesSearch c.rx true (36 :: 123 :: (e ++ 125 :: x)) ≠ none := by
        by_cases hx : 125 ∈ x
        · obtain ⟨x1, x2, hx12, hx2⟩ := exists_last_split x hx
          have := bracesSearch_eq c h [] (e ++ 125 :: x1) x2 noStart_nil hx2
          have h2 : 36 :: 123 :: (e ++ 125 :: x) = [] ++ 36 :: 123 :: ((e ++ 125 :: x1) ++ 125 :: x2) := by
            rw [hx12]; simp
          rw [h2, this]; simp
        · have := bracesSearch_eq c h [] e x noStart_nil hx
          simp only [List.nil_append] at this
          rw [this]; simp
      cases hbs : bracesSearch c.rx true (36 :: 123 :: (e ++ 125 :: x)) with
      | none => exact absurd hbs hs
      | some r =>
        simp only
        cases f with
        | zero => omega
        | succ f' =>
          cases k with
          | zero => omega
          | succ k' =>
            have hrej' : LongerRejected c g0 f' e x (pos + pre.length + (([] : Str).length + 2)) := by
              intro g x' y' hg hg2 hx'
              have := hrej g x' (y' ++ 125 :: y) hg (by omega) (by rw [hxy, hx']; simp)
              simpa [Nat.add_assoc] using this
            have hacc' : ∀ g, g0 ≤ g → g ≤ f' → ∃ te, compileTales c g { str := e, pos := pos + pre.length + (([] : Str).length + 2) } = .ok te := by
              intro g hg hg2
              simpa [Nat.add_assoc] using hacc g hg (by omega)
            obtain ⟨g, te, hg, hg2, hte, hcand⟩ := ih x [] (pos + pre.length) 0 f' k' (by omega) noStart_nil (by omega) (by omega) hax hrej' hacc'
            refine ⟨g, te, hg, by omega, by simpa [Nat.add_assoc] using hte, ?_⟩
            simp only [List.nil_append] at hcand
            rw [hcand]
            simp [Nat.add_assoc]
    · obtain ⟨te, hte⟩ := hacc f (by omega) (Nat.le_refl _)
      refine ⟨f, te, by omega, Nat.le_refl _, hte, ?_⟩
      rw [candidate_round c h f k pos ms0 pre e post decode hpre hmem he hae, hte]
      rfl

theorem trailing_dollars_none (pre : Str) (hpre : 36 ∉ pre) : (pre.reverse.takeWhile (· == 36)).length = 0 := by
  cases hr : pre.reverse with
  | nil => rfl
  | cons a r =>
    have ha : a ∈ pre := by
      have : a ∈ pre.reverse := by rw [hr]; simp
      simpa using this
    have hne : a ≠ 36 := fun h => hpre (h ▸ ha)
    have hb : (a == 36) = false := by simpa using hne
    simp [List.takeWhile, hb]

theorem undouble_id (s : Str) (h : 36 ∉ s) : undoubleDollar s = s := by
  induction s with
  | nil => rfl
  | cons c s ih =>
    have hc : c ≠ 36 := fun e => h (by simp [e])
    have hs : 36 ∉ s := fun e => h (by simp [e])
    rw [undoubleDollar.eq_def]
    split
    · simp_all
    · rename_i heq; simp only [List.cons.injEq] at heq; rw [← heq.1, ← heq.2, ih hs]
    · simp_all

/-- the general step: `pre` holds no `${` start and ends in an even number of `$` (possibly none): the literal is `pre` with its `$$`
collapsed, then the expression `e`, then the parts of `post` -/
theorem C06_interp_step_gen (h : RxOk c) (g0 : Nat) (e : Str) (he : e ≠ []) (pre post : Str) (pos f : Nat) (decode : Bool)
    (hae : decode = true → 38 ∉ e) (hap : decode = true → 38 ∉ post)
    (hpre : NoStart pre) (htr : (pre.reverse.takeWhile (· == 36)).length % 2 = 0) (hf : g0 + post.length ≤ f)
    (hrej : LongerRejected c g0 f e post (pos + (pre.length + 2)))
    (hacc : ∀ g, g0 ≤ g → g ≤ f → ∃ te, compileTales c g { str := e, pos := pos + (pre.length + 2) } = .ok te) :
    ∃ g te, g0 ≤ g ∧ g ≤ f ∧ compileTales c g { str := e, pos := pos + (pre.length + 2) } = .ok te ∧
      compileInterp c (f + 2) { str := pre ++ 36 :: 123 :: (e ++ 125 :: post), pos := pos } true decode =
        (compileInterp c (f + 1) { str := post, pos := pos + pre.length + (e.length + 3) } true decode).map
          (fun rest => (if pre.isEmpty then [] else [IPart.lit (undoubleDollar pre)]) ++
            [IPart.expr te { str := e, pos := pos + (pre.length + 2) } e] ++ rest) := by
  obtain ⟨g, te, hg, hg2, hte, hcand⟩ := C06_candidate_own_brace c h g0 e he decode hae post.length post pre pos pre.length f
    ((pre ++ 36 :: 123 :: (e ++ 125 :: post)).length) (Nat.le_refl _) hpre hf (by simp; omega) hap hrej hacc
  refine ⟨g, te, hg, hg2, hte, ?_⟩
  -- where the first `${` is
  have hsearch : ∃ st, bracesSearch c.rx true (pre ++ 36 :: 123 :: (e ++ 125 :: post)) = some (pre.length, st) := by
    by_cases hm : 125 ∈ post
    · obtain ⟨x, y, hxy, hy⟩ := exists_last_split post hm
      have := bracesSearch_eq c h pre (e ++ 125 :: x) y hpre hy
      have h2 : pre ++ 36 :: 123 :: (e ++ 125 :: post) = pre ++ 36 :: 123 :: ((e ++ 125 :: x) ++ 125 :: y) := by
        rw [hxy]; simp
      exact ⟨_, by rw [h2, this]⟩
    · exact ⟨_, bracesSearch_eq c h pre e post hpre hm⟩
  obtain ⟨st, hst⟩ := hsearch
  have hnonempty : (pre ++ 36 :: 123 :: (e ++ 125 :: post)).isEmpty = false := by cases pre <;> rfl
  have hpart : (Tok.slice { str := pre ++ 36 :: 123 :: (e ++ 125 :: post), pos := pos } 0 (some pre.length)).str = pre := by
    simp only [Tok.slice, List.drop_zero, Nat.sub_zero]
    exact take_pre pre _
  have hslice1 : Tok.slice { str := pre ++ 36 :: 123 :: (e ++ 125 :: post), pos := pos } pre.length none =
      { str := 36 :: 123 :: (e ++ 125 :: post), pos := pos + pre.length } := by
    simp only [Tok.slice]
    rw [drop_pre0, List.take_of_length_le (by simp)]
  have h3 : (36 :: 123 :: (e ++ 125 :: post)).drop (e.length + 3) = post := by
    have : e.length + 3 = (e.length + 1) + 2 := by omega
    rw [this]
    simp only [List.drop_succ_cons]
    have : e ++ 125 :: post = (e ++ [125]) ++ post := by simp
    rw [this]
    have hl : e.length + 1 = (e ++ [125]).length := by simp
    rw [hl, drop_pre0]
  have htext' : Tok.slice (Tok.slice { str := pre ++ 36 :: 123 :: (e ++ 125 :: post), pos := pos } pre.length none) (e.length + 3) none =
      { str := post, pos := pos + pre.length + (e.length + 3) } := by
    rw [hslice1]
    simp only [Tok.slice]
    rw [h3, List.take_of_length_le (by simp; omega)]
  rw [compileInterp]
  have hodd : ((pre.reverse.takeWhile (· == 36)).length % 2 == 1) = false := by rw [htr]; rfl
  simp only [hnonempty, Bool.false_eq_true, if_false, hst, hpart, hodd, Bool.and_false]
  simp only [bind, Except.bind, hcand, htext', Except.map]
  cases compileInterp c (f + 1) { str := post, pos := pos + pre.length + (e.length + 3) } true decode with
  | ok rest => cases pre <;> rfl
  | error er => rfl

/-- **C06 (one `${…}` of a text)**: literal text without `$`, then `${e}`, then anything: the parts are the literal, the
expression `e` — ended at its own closing brace — and the parts of what follows `${e}` -/
theorem C06_interp_step (h : RxOk c) (g0 : Nat) (e : Str) (he : e ≠ []) (pre post : Str) (pos f : Nat) (decode : Bool)
    (hae : decode = true → 38 ∉ e) (hap : decode = true → 38 ∉ post)
    (hpre : 36 ∉ pre) (hf : g0 + post.length ≤ f)
    (hrej : LongerRejected c g0 f e post (pos + (pre.length + 2)))
    (hacc : ∀ g, g0 ≤ g → g ≤ f → ∃ te, compileTales c g { str := e, pos := pos + (pre.length + 2) } = .ok te) :
    ∃ g te, g0 ≤ g ∧ g ≤ f ∧ compileTales c g { str := e, pos := pos + (pre.length + 2) } = .ok te ∧
      compileInterp c (f + 2) { str := pre ++ 36 :: 123 :: (e ++ 125 :: post), pos := pos } true decode =
        (compileInterp c (f + 1) { str := post, pos := pos + pre.length + (e.length + 3) } true decode).map
          (fun rest => (if pre.isEmpty then [] else [IPart.lit pre]) ++
            [IPart.expr te { str := e, pos := pos + (pre.length + 2) } e] ++ rest) := by
  have := C06_interp_step_gen c h g0 e he pre post pos f decode hae hap (noStart_of_no_dollar pre hpre)
    (by rw [trailing_dollars_none pre hpre]) hf hrej hacc
  rw [undouble_id pre hpre] at this
  exact this

/-- text without `$` is one literal part (or none when empty) -/
theorem compileInterp_no_dollar (h : RxOk c) (f pos : Nat) (t : Str) (decode : Bool) (ht : 36 ∉ t) :
    compileInterp c (f + 1) { str := t, pos := pos } true decode = .ok (if t.isEmpty then [] else [IPart.lit t]) := by
  rw [compileInterp]
  cases t with
  | nil => rfl
  | cons a r =>
    have hs : bracesSearch c.rx true (a :: r) = none := by
      unfold bracesSearch
      simp only [if_true, h.re]
      exact search_no_dollar Gen.uni (a :: r) ht
    simp only [List.isEmpty_cons, Bool.false_eq_true, if_false, hs, undouble_id (a :: r) ht]
    rfl

/-- **C06 (text, one expression, text)**: `pre ++ "${" ++ e ++ "}" ++ post` with no `$` in `pre` and `post` is exactly three parts:
the literal `pre`, the expression `e`, the literal `post` (empty literals are dropped) — whatever braces `e` and `post` hold -/
theorem C06_text_expr_text (h : RxOk c) (g0 : Nat) (e : Str) (he : e ≠ []) (pre post : Str) (pos f : Nat) (decode : Bool)
    (hae : decode = true → 38 ∉ e) (hap : decode = true → 38 ∉ post)
    (hpre : 36 ∉ pre) (hpost : 36 ∉ post) (hf : g0 + post.length ≤ f)
    (hrej : LongerRejected c g0 f e post (pos + (pre.length + 2)))
    (hacc : ∀ g, g0 ≤ g → g ≤ f → ∃ te, compileTales c g { str := e, pos := pos + (pre.length + 2) } = .ok te) :
    ∃ g te, g0 ≤ g ∧ g ≤ f ∧ compileTales c g { str := e, pos := pos + (pre.length + 2) } = .ok te ∧
      compileInterp c (f + 2) { str := pre ++ 36 :: 123 :: (e ++ 125 :: post), pos := pos } true decode =
        .ok ((if pre.isEmpty then [] else [IPart.lit pre]) ++ [IPart.expr te { str := e, pos := pos + (pre.length + 2) } e] ++
             (if post.isEmpty then [] else [IPart.lit post])) := by
  obtain ⟨g, te, hg, hg2, hte, hstep⟩ := C06_interp_step c h g0 e he pre post pos f decode hae hap hpre hf hrej hacc
  refine ⟨g, te, hg, hg2, hte, ?_⟩
  rw [hstep, compileInterp_no_dollar c h f _ post decode hpost]
  rfl

/-! ## `$$` and the parity of a run of `$` before `${` -/

theorem replicate_reverse (k : Nat) (x : Nat) : (List.replicate k x).reverse = List.replicate k x := by
  simp

theorem takeWhile_run (k : Nat) (r : Str) (hr : r.head? ≠ some 36) :
    ((List.replicate k 36 ++ r).takeWhile (· == 36)).length = k := by
  induction k with
  | zero =>
    cases r with
    | nil => rfl
    | cons a t =>
      have : a ≠ 36 := by simpa using hr
      have hb : (a == 36) = false := by simpa using this
      simp [List.takeWhile, hb]
  | succ k ih =>
    simp only [List.replicate_succ, List.cons_append, List.takeWhile, beq_self_eq_true, List.length_cons]
    rw [ih]

/-- the number of `$` at the end of `pre0 ++ "$…$"` is the length of the run when `pre0` holds no `$` -/
theorem trailing_run (pre0 : Str) (k : Nat) (h : 36 ∉ pre0) :
    ((pre0 ++ List.replicate k 36).reverse.takeWhile (· == 36)).length = k := by
  rw [List.reverse_append, replicate_reverse]
  apply takeWhile_run
  cases hr : pre0.reverse with
  | nil => simp
  | cons a t =>
    have ha : a ∈ pre0 := by
      have : a ∈ pre0.reverse := by rw [hr]; simp
      simpa using this
    simp only [List.head?_cons, ne_eq, Option.some.injEq]
    exact fun e => h (e ▸ ha)

/-- `$$` collapses pairwise: a run of `k` dollars becomes `⌈k/2⌉` -/
theorem undouble_replicate : ∀ (k : Nat), undoubleDollar (List.replicate k 36) = List.replicate ((k + 1) / 2) 36
  | 0 => rfl
  | 1 => rfl
  | k + 2 => by
    have : List.replicate (k + 2) 36 = 36 :: 36 :: List.replicate k 36 := rfl
    rw [this, undoubleDollar, undouble_replicate k]
    have : (k + 2 + 1) / 2 = (k + 1) / 2 + 1 := by omega
    rw [this]
    rfl

theorem undouble_run (pre0 : Str) (k : Nat) (h : 36 ∉ pre0) :
    undoubleDollar (pre0 ++ List.replicate k 36) = pre0 ++ List.replicate ((k + 1) / 2) 36 := by
  induction pre0 with
  | nil => simpa using undouble_replicate k
  | cons c r ih =>
    have hc : c ≠ 36 := fun e => h (by simp [e])
    have hr : 36 ∉ r := fun e => h (by simp [e])
    simp only [List.cons_append]
    rw [undoubleDollar.eq_def]
    split
    · rename_i heq; simp only [List.cons.injEq] at heq; exact absurd heq.1.symm (fun e => hc e.symm)
    · rename_i heq; simp only [List.cons.injEq] at heq; rw [← heq.1, ← heq.2, ih hr]
    · rename_i heq; cases heq

/-- **C06 (an even run of `$` before `${`)**: `pre0` (no `$`), `2·j` dollars, `${e}`: the dollars collapse to `j` literal ones
and the expression is live -/
theorem C06_dollar_run_even (h : RxOk c) (g0 : Nat) (e : Str) (he : e ≠ []) (pre0 post : Str) (j pos f : Nat) (decode : Bool)
    (hae : decode = true → 38 ∉ e) (hap : decode = true → 38 ∉ post)
    (hpre : 36 ∉ pre0) (hf : g0 + post.length ≤ f)
    (hrej : LongerRejected c g0 f e post (pos + ((pre0 ++ List.replicate (2 * j) 36).length + 2)))
    (hacc : ∀ g, g0 ≤ g → g ≤ f → ∃ te, compileTales c g { str := e, pos := pos + ((pre0 ++ List.replicate (2 * j) 36).length + 2) } = .ok te) :
    ∃ g te, g0 ≤ g ∧ g ≤ f ∧
      compileInterp c (f + 2) { str := (pre0 ++ List.replicate (2 * j) 36) ++ 36 :: 123 :: (e ++ 125 :: post), pos := pos } true decode =
        (compileInterp c (f + 1) { str := post, pos := pos + (pre0 ++ List.replicate (2 * j) 36).length + (e.length + 3) } true decode).map
          (fun rest => (if (pre0 ++ List.replicate (2 * j) 36).isEmpty then [] else [IPart.lit (pre0 ++ List.replicate j 36)]) ++
            [IPart.expr te { str := e, pos := pos + ((pre0 ++ List.replicate (2 * j) 36).length + 2) } e] ++ rest) := by
  obtain ⟨g, te, hg, hg2, _, hstep⟩ := C06_interp_step_gen c h g0 e he (pre0 ++ List.replicate (2 * j) 36) post pos f decode hae hap
    (noStart_run pre0 (2 * j) hpre) (by rw [trailing_run pre0 (2 * j) hpre]; omega) hf hrej hacc
  refine ⟨g, te, hg, hg2, ?_⟩
  rw [undouble_run pre0 (2 * j) hpre] at hstep
  have : (2 * j + 1) / 2 = j := by omega
  rw [this] at hstep
  exact hstep

/-- **C06 (`$$` in front of `${`: the expression is escaped)**: `pre0` (no `$`), an odd number `2·j + 1` of dollars, then
`${e}…`: the `$` of the would-be `${` pairs with the dollar before it — the literal is `pre0` and `j + 1` dollars, and what
follows is read on from the `{`, which is ordinary text: nothing of `e` is compiled here -/
theorem C06_dollar_run_odd (h : RxOk c) (e pre0 post : Str) (j pos f : Nat) (decode : Bool) (hpre : 36 ∉ pre0) :
    compileInterp c (f + 1) { str := (pre0 ++ List.replicate (2 * j + 1) 36) ++ 36 :: 123 :: (e ++ 125 :: post), pos := pos } true decode =
      (compileInterp c f { str := 123 :: (e ++ 125 :: post), pos := pos + (pre0 ++ List.replicate (2 * j + 1) 36).length + 1 } true decode).map
        (fun rest => [IPart.lit (pre0 ++ List.replicate (j + 1) 36)] ++ rest) := by
  generalize hP : pre0 ++ List.replicate (2 * j + 1) 36 = pre
  have hns : NoStart pre := by rw [← hP]; exact noStart_run pre0 (2 * j + 1) hpre
  have htr : (pre.reverse.takeWhile (· == 36)).length = 2 * j + 1 := by rw [← hP]; exact trailing_run pre0 (2 * j + 1) hpre
  have hund : undoubleDollar pre = pre0 ++ List.replicate (j + 1) 36 := by
    rw [← hP, undouble_run pre0 (2 * j + 1) hpre]
    have : (2 * j + 1 + 1) / 2 = j + 1 := by omega
    rw [this]
  have hne : pre.isEmpty = false := by
    rw [← hP]
    cases pre0 with
    | nil => simp [List.replicate_succ]
    | cons _ _ => rfl
  have hsearch : ∃ st, bracesSearch c.rx true (pre ++ 36 :: 123 :: (e ++ 125 :: post)) = some (pre.length, st) := by
    by_cases hm : 125 ∈ post
    · obtain ⟨x, y, hxy, hy⟩ := exists_last_split post hm
      have := bracesSearch_eq c h pre (e ++ 125 :: x) y hns hy
      have h2 : pre ++ 36 :: 123 :: (e ++ 125 :: post) = pre ++ 36 :: 123 :: ((e ++ 125 :: x) ++ 125 :: y) := by
        rw [hxy]; simp
      exact ⟨_, by rw [h2, this]⟩
    · exact ⟨_, bracesSearch_eq c h pre e post hns hm⟩
  obtain ⟨st, hst⟩ := hsearch
  have hnonempty : (pre ++ 36 :: 123 :: (e ++ 125 :: post)).isEmpty = false := by cases pre <;> rfl
  have hpart : (Tok.slice { str := pre ++ 36 :: 123 :: (e ++ 125 :: post), pos := pos } 0 (some pre.length)).str = pre := by
    simp only [Tok.slice, List.drop_zero, Nat.sub_zero]
    exact take_pre pre _
  have hslice1 : Tok.slice { str := pre ++ 36 :: 123 :: (e ++ 125 :: post), pos := pos } pre.length none =
      { str := 36 :: 123 :: (e ++ 125 :: post), pos := pos + pre.length } := by
    simp only [Tok.slice]
    rw [drop_pre0, List.take_of_length_le (by simp)]
  have hslice2 : Tok.slice { str := 36 :: 123 :: (e ++ 125 :: post), pos := pos + pre.length } 1 none =
      { str := 123 :: (e ++ 125 :: post), pos := pos + pre.length + 1 } := by
    simp only [Tok.slice, List.drop_succ_cons, List.drop_zero]
    rw [List.take_of_length_le (by simp)]
  rw [compileInterp]
  have hodd : ((2 * j + 1) % 2 == 1) = true := by
    have : (2 * j + 1) % 2 = 1 := by omega
    rw [this]; rfl
  simp only [hnonempty, Bool.false_eq_true, if_false, hst, hpart, htr, hodd, hne, Bool.not_false, Bool.and_self, if_true,
    hslice1, hslice2, hund]
  simp only [bind, Except.bind, Except.map]
  cases compileInterp c f { str := 123 :: (e ++ 125 :: post), pos := pos + pre.length + 1 } true decode with
  | ok rest => rfl
  | error er => rfl

end ChamVerif.C06Loop

namespace ChamVerif.C06Loop
open ChamVerif

/-- a configuration with the regenerated regexes -/
def c0 : TCfg := { rx := Rx.live, q := Quirks.current, oracle := [] }

theorem c0_ok : RxOk c0 := ⟨tie_bracesReq.1, tie_bracesReq.2, tie_entity2⟩

def isExprErr : CRes TExpr → Bool
  | .error (.template cls _ _) => cls == "ExpressionError"
  | _ => false

def isOk : CRes TExpr → Bool
  | .ok _ => true
  | _ => false

theorem isExprErr_spec (r : CRes TExpr) (h : isExprErr r = true) :
    ∃ msg tok, r = .error (.template "ExpressionError" msg tok) := by
  cases r with
  | ok _ => cases h
  | error e =>
    cases e with
    | template cls msg tok =>
      have : cls = "ExpressionError" := by simpa [isExprErr] using h
      exact ⟨msg, tok, by rw [this]⟩
    | templateNoSrc _ _ _ => cases h
    | crash _ => cases h

theorem isOk_spec (r : CRes TExpr) (h : isOk r = true) : ∃ te, r = .ok te := by
  cases r with
  | ok te => exact ⟨te, rfl⟩
  | error _ => cases h

/-- non-vacuity: the premises hold for the text `abc${x}}` — expression `x`, one more `}` after it: the longer candidate
`x}` is rejected and `x` compiles, at the fuels the loop uses (kernel evaluation of the model's compiler on the
regenerated regexes) -/
example : LongerRejected c0 3 4 [120] [125] 3 ∧
    (∀ g, 3 ≤ g → g ≤ 4 → ∃ te, compileTales c0 g { str := [120], pos := 3 } = .ok te) := by
  constructor
  · intro g x y h1 h2 hxy
    have hx : x = [] := by
      cases x with
      | nil => rfl
      | cons a r => cases r <;> simp at hxy
    subst hx
    have hg : g = 3 ∨ g = 4 := by omega
    rcases hg with rfl | rfl
    · exact isExprErr_spec _ (by decide +kernel)
    · exact isExprErr_spec _ (by decide +kernel)
  · intro g h1 h2
    have hg : g = 3 ∨ g = 4 := by omega
    rcases hg with rfl | rfl
    · exact isOk_spec _ (by decide +kernel)
    · exact isOk_spec _ (by decide +kernel)

end ChamVerif.C06Loop

import ChamVerif.Sys.Sched
/-! # C14 — thread safety of the lazily compiling render (the determinism/purity clauses are tied to the pure
`Pipeline.render` by correspondence and judged by the oracle) -/
namespace ChamVerif.Sys.Sched

theorem lookup_setFn_same (fns : List (String × Nat)) (n : String) (v : Nat) : lookup (setFn fns n v) n = some v := by
  simp [lookup, setFn]

theorem find_filter_ne (fns : List (String × Nat)) (n m : String) (h : m ≠ n) :
    (fns.filter (·.1 != n)).find? (·.1 == m) = fns.find? (·.1 == m) := by
  induction fns with
  | nil => rfl
  | cons e rest ih =>
    by_cases he : e.1 = n
    · have h2 : (e.1 == m) = false := by simp [he]; exact fun e => h e.symm
      have h3 : (e.1 != n) = false := by simp [he]
      simp only [List.filter_cons, h3, Bool.false_eq_true, if_false, List.find?_cons, h2]
      exact ih
    · have h3 : (e.1 != n) = true := by simpa using he
      simp only [List.filter_cons, h3, if_true, List.find?_cons]
      cases hq : (e.1 == m)
      · exact ih
      · rfl

theorem lookup_setFn_ne (fns : List (String × Nat)) (n m : String) (v : Nat) (h : m ≠ n) :
    lookup (setFn fns n v) m = lookup fns m := by
  have h1 : (n == m) = false := by simp; exact fun e => h e.symm
  simp only [lookup, setFn, List.find?_cons, h1]
  rw [find_filter_ne fns n m h]

theorem lookup_filter_keep (fns : List (String × Nat)) (names : List String) (m : String) (h : names.contains m = true) :
    lookup (fns.filter (fun f => names.contains f.1)) m = lookup fns m := by
  simp only [lookup]
  congr 1
  induction fns with
  | nil => rfl
  | cons e rest ih =>
    cases hq : (e.1 == m)
    · cases hk : names.contains e.1
      · simp only [List.filter_cons, hk, Bool.false_eq_true, if_false, List.find?_cons, hq]; exact ih
      · simp only [List.filter_cons, hk, if_true, List.find?_cons, hq]; exact ih
    · have he : e.1 = m := by simpa using hq
      have hk : names.contains e.1 = true := by rw [he]; exact h
      simp only [List.filter_cons, hk, if_true, List.find?_cons, hq]

/-- function `n` of the version is installed -/
def Installed (c : Cfg) (s : Shared) (n : String) : Prop := lookup s.fns n = some c.version

/-- what a thread has established, by its program counter -/
def ThreadOK (c : Cfg) (s : Shared) : PC → Prop
  | .install i => ∀ j, j < i → ∀ n, c.names[j]? = some n → Installed c s n
  | .clean | .setCooked => ∀ n ∈ c.names, Installed c s n
  | .call => ∀ n ∈ c.names, Installed c s n
  | .done r => "render" ∈ c.names → r = some c.version
  | _ => True

/-- the invariant of every reachable state: the flag is set only when every function of the version is installed, and
every thread's local knowledge is true of the shared state -/
structure Inv (c : Cfg) (w : World) : Prop where
  flag : w.shared.cooked = true → ∀ n ∈ c.names, Installed c w.shared n
  threads : ∀ pc ∈ w.threads, ThreadOK c w.shared pc

/-- installed functions stay installed: a step of any thread never uninstalls or re-versions a function of the version -/
theorem installed_stable (c : Cfg) (s : Shared) (pc : PC) (n : String) (hn : n ∈ c.names) (h : Installed c s n) :
    Installed c (stepThread c s pc).1 n := by
  unfold Installed at h ⊢
  cases pc with
  | start => simp only [stepThread]; split <;> exact h
  | setLast => exact h
  | clearCooked => exact h
  | testCooked => simp only [stepThread]; split <;> exact h
  | install i =>
    simp only [stepThread]
    cases hi : c.names[i]? with
    | none => exact h
    | some m =>
      simp only
      by_cases hm : n = m
      · subst hm; exact lookup_setFn_same _ _ _
      · rw [lookup_setFn_ne _ _ _ _ hm]; exact h
  | clean =>
    simp only [stepThread]
    rw [lookup_filter_keep _ _ _ (by simpa using hn)]
    exact h
  | setCooked => exact h
  | call => exact h
  | done r => exact h

theorem threadOK_stable (c : Cfg) (s : Shared) (pc other : PC) (h : ThreadOK c s other) :
    ThreadOK c (stepThread c s pc).1 other := by
  cases other with
  | install i =>
    intro j hj n hn
    exact installed_stable c s pc n (List.mem_of_getElem? hn) (h j hj n hn)
  | clean => intro n hn; exact installed_stable c s pc n hn (h n hn)
  | setCooked => intro n hn; exact installed_stable c s pc n hn (h n hn)
  | call => intro n hn; exact installed_stable c s pc n hn (h n hn)
  | done r => exact h
  | start => trivial
  | setLast => trivial
  | clearCooked => trivial
  | testCooked => trivial

theorem threadOK_self (c : Cfg) (s : Shared) (pc : PC) (hflag : s.cooked = true → ∀ n ∈ c.names, Installed c s n)
    (h : ThreadOK c s pc) : ThreadOK c (stepThread c s pc).1 (stepThread c s pc).2 := by
  cases pc with
  | start => simp only [stepThread]; split <;> trivial
  | setLast => trivial
  | clearCooked => trivial
  | testCooked =>
    simp only [stepThread]
    cases hc : s.cooked
    · simp only [Bool.false_eq_true, if_false]; intro j hj; omega
    · simp only [if_true]; exact hflag hc
  | install i =>
    simp only [stepThread]
    cases hi : c.names[i]? with
    | none =>
      simp only
      intro n hn
      obtain ⟨j, hj, hjn⟩ := List.getElem_of_mem hn
      have hlen : c.names.length ≤ i := List.getElem?_eq_none_iff.mp hi
      have hji : j < i := by omega
      exact h j hji n (by simp [List.getElem?_eq_getElem hj, hjn])
    | some m =>
      simp only
      intro j hj n hn
      by_cases hji : j < i
      · have := installed_stable c s (.install i) n (List.mem_of_getElem? hn) (h j hji n hn)
        simpa [stepThread, hi] using this
      · have hje : j = i := by omega
        subst hje
        rw [hi] at hn
        cases hn
        exact lookup_setFn_same _ _ _
  | clean =>
    intro n hn
    exact installed_stable c s .clean n hn (h n hn)
  | setCooked => intro n hn; exact h n hn
  | call =>
    intro hr
    exact h "render" hr
  | done r => exact h

theorem flag_step (c : Cfg) (s : Shared) (pc : PC) (hflag : s.cooked = true → ∀ n ∈ c.names, Installed c s n)
    (h : ThreadOK c s pc) : (stepThread c s pc).1.cooked = true → ∀ n ∈ c.names, Installed c (stepThread c s pc).1 n := by
  intro hc n hn
  cases pc with
  | setCooked => exact h n hn
  | clearCooked => simp [stepThread] at hc
  | start =>
    have : (stepThread c s .start).1 = s := by simp only [stepThread]; split <;> rfl
    rw [this] at hc ⊢; exact hflag hc n hn
  | setLast => exact hflag hc n hn
  | testCooked =>
    have : (stepThread c s .testCooked).1 = s := by simp only [stepThread]; split <;> rfl
    rw [this] at hc ⊢; exact hflag hc n hn
  | install i =>
    have hc' : s.cooked = true := by
      simp only [stepThread] at hc
      cases hi : c.names[i]? <;> simpa [hi] using hc
    exact installed_stable c s (.install i) n hn (hflag hc' n hn)
  | clean =>
    have hc' : s.cooked = true := by simpa [stepThread] using hc
    exact installed_stable c s .clean n hn (hflag hc' n hn)
  | call => exact hflag hc n hn
  | done r => exact hflag hc n hn

theorem inv_step (c : Cfg) (w : World) (i : Nat) (hi : Inv c w) : Inv c (step c w i) := by
  unfold step
  cases hp : w.threads[i]? with
  | none => exact hi
  | some pc =>
    have hpc : pc ∈ w.threads := List.mem_of_getElem? hp
    have hok := hi.threads pc hpc
    refine ⟨flag_step c w.shared pc hi.flag hok, ?_⟩
    intro q hq
    rcases List.mem_or_eq_of_mem_set hq with hq' | rfl
    · exact threadOK_stable c w.shared pc q (hi.threads q hq')
    · exact threadOK_self c w.shared pc hi.flag hok

theorem inv_run (c : Cfg) : ∀ (sched : List Nat) (w : World), Inv c w → Inv c (run c w sched) := by
  intro sched
  induction sched with
  | nil => intro w h; exact h
  | cons i rest ih => intro w h; exact ih _ (inv_step c w i h)

/-- **C14 (concurrent renders on a shared, lazily compiling template)**: any number of threads, any schedule (no bound on
either): the `_cooked` flag is never observed set before every function of the template is installed, and every
thread that finishes has run the `_render` of the file's version — what it would have returned alone. -/
theorem C14_thread_result (c : Cfg) (n : Nat) (sched : List Nat) (hr : "render" ∈ c.names) :
    let w := run c { shared := {}, threads := List.replicate n .start } sched
    (w.shared.cooked = true → ∀ f ∈ c.names, Installed c w.shared f) ∧
    ∀ r, PC.done r ∈ w.threads → r = some c.version := by
  intro w
  have h0 : Inv c { shared := {}, threads := List.replicate n .start } :=
    ⟨fun h => by simp at h, fun pc hpc => by rw [List.eq_of_mem_replicate hpc]; trivial⟩
  have h := inv_run c sched _ h0
  exact ⟨h.flag, fun r hr' => h.threads _ hr' hr⟩

/-- progress: a thread that is scheduled often enough finishes (here: alone, within `names.length + 8` steps) -/
theorem C14_solo_finishes :
    let c : Cfg := { autoReload := true, mtime := 5, version := 3, names := ["render", "render_a"] }
    (run c { shared := {}, threads := [.start] } (List.replicate 10 0)).threads = [.done (some 3)] := by
  decide +kernel

/-- why the flag must be set last: a variant that sets `_cooked` before installing lets another thread call a
missing function.  (Witness on the variant's step function, decided by evaluation.) -/
def badStep (c : Cfg) (s : Shared) : PC → Shared × PC
  | .testCooked => if s.cooked then (s, .call) else ({ s with cooked := true }, .install 0)
  | .setCooked => (s, .call)
  | pc => stepThread c s pc

theorem C14_flag_first_counterexample :
    let c : Cfg := { autoReload := false, mtime := 5, version := 3, names := ["render"] }
    let stepB (w : World) (i : Nat) : World := match w.threads[i]? with
      | none => w
      | some pc => let (s', pc') := badStep c w.shared pc; { shared := s', threads := w.threads.set i pc' }
    ([0, 0, 1, 1, 1] : List Nat).foldl stepB { shared := {}, threads := [.start, .start] } =
      { shared := { cooked := true }, threads := [.install 0, .done none] } := by
  decide +kernel

end ChamVerif.Sys.Sched

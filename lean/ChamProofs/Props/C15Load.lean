import ChamVerif.Sys.Load
/-! # C15 — threads of one process loading the same cached module

`C15_loaded_module_complete`: with `ModuleLoader._load` as it is (execute, *then* register; every look at `sys.modules` under
the lock) every thread that returns from `_load`, under any schedule of any number of threads, returns a module whose
`exec_module` has finished — no thread sees a registered but not yet executed module.  `C15_load_registered_first_counterexample`:
with the module registered before it is executed and a lock-free look first (the "optimised" protocol) a schedule of two
threads returns an unexecuted module to the second one. -/
namespace ChamVerif.Sys.Load

def Ob (objs : List Bool) (th : Th) : Prop :=
  (th.pc = .created → ∃ id, th.mine = some id ∧ id < objs.length) ∧
  ((th.pc = .executed ∨ th.pc = .registered ∨ th.pc = .released) → ∃ id, th.mine = some id ∧ objDone objs id = true) ∧
  (∀ b, th.pc = .done b → b = true)

def Inv (s : LState) : Prop :=
  (∀ id, s.reg = some id → objDone s.objs id = true) ∧ (∀ (t : Nat) (th : Th), s.ths[t]? = some th → Ob s.objs th)

theorem objDone_lt (objs : List Bool) (id : Nat) (h : objDone objs id = true) : id < objs.length := by
  unfold objDone at h
  rcases Nat.lt_or_ge id objs.length with hl | hl
  · exact hl
  · rw [List.getElem?_eq_none hl] at h; cases h

theorem objDone_append (objs : List Bool) (id : Nat) (h : objDone objs id = true) : objDone (objs ++ [false]) id = true := by
  have hl := objDone_lt objs id h
  unfold objDone at h ⊢
  rw [List.getElem?_append_left hl]; exact h

theorem objDone_set (objs : List Bool) (i id : Nat) (h : objDone objs id = true) : objDone (objs.set i true) id = true := by
  have hl := objDone_lt objs id h
  unfold objDone at h ⊢
  rw [List.getElem?_set]
  by_cases hij : i = id
  · subst hij; simp [hl]
  · simp only [hij, if_false]; exact h

theorem objDone_set_self (objs : List Bool) (i : Nat) (h : i < objs.length) : objDone (objs.set i true) i = true := by
  unfold objDone
  rw [List.getElem?_set]
  simp [h]

/-- obligations are monotone in the object table -/
theorem Ob_mono (objs objs' : List Bool) (th : Th) (hlen : objs.length ≤ objs'.length)
    (hd : ∀ id, objDone objs id = true → objDone objs' id = true) (h : Ob objs th) : Ob objs' th := by
  obtain ⟨h1, h2, h3⟩ := h
  refine ⟨?_, ?_, h3⟩
  · intro hp; obtain ⟨id, hm, hl⟩ := h1 hp; exact ⟨id, hm, by omega⟩
  · intro hp; obtain ⟨id, hm, hdone⟩ := h2 hp; exact ⟨id, hm, hd id hdone⟩

/-- replacing thread `t` by `th'` and the object table by a larger one keeps the invariant when `th'` meets its obligations -/
theorem inv_update (s : LState) (t : Nat) (th' : Th) (objs' : List Bool) (reg' lock' : Option Nat)
    (hi : Inv s) (hlen : s.objs.length ≤ objs'.length) (hd : ∀ id, objDone s.objs id = true → objDone objs' id = true)
    (hreg : ∀ id, reg' = some id → objDone objs' id = true) (hob : Ob objs' th') :
    Inv { lock := lock', reg := reg', objs := objs', ths := s.ths.set t th' } := by
  refine ⟨hreg, ?_⟩
  intro t' th hget
  simp only [List.getElem?_set] at hget
  split at hget
  · split at hget
    · cases hget; exact hob
    · cases hget
  · exact Ob_mono s.objs objs' th hlen hd (hi.2 t' th hget)

/-- obligations of a thread at a program counter that carries none -/
theorem Ob_idle (objs : List Bool) (th : Th) (h : th.pc = .start ∨ th.pc = .locked) : Ob objs th := by
  refine ⟨?_, ?_, ?_⟩
  · intro hp; rcases h with h | h <;> rw [h] at hp <;> cases hp
  · intro hp; rcases h with h | h <;> rw [h] at hp <;> rcases hp with hp | hp | hp <;> cases hp
  · intro b hp; rcases h with h | h <;> rw [h] at hp <;> cases hp

/-- obligations of a thread that holds an executed module -/
theorem Ob_holds (objs : List Bool) (th : Th) (id : Nat) (hm : th.mine = some id) (hd : objDone objs id = true)
    (h : th.pc = .executed ∨ th.pc = .registered ∨ th.pc = .released ∨ th.pc = .done true) : Ob objs th := by
  refine ⟨?_, fun _ => ⟨id, hm, hd⟩, ?_⟩
  · intro hp; rcases h with h | h | h | h <;> rw [h] at hp <;> cases hp
  · intro b hp; rcases h with h | h | h | h <;> rw [h] at hp <;> cases hp; rfl

theorem Ob_created (objs : List Bool) (th : Th) (id : Nat) (hm : th.mine = some id) (hl : id < objs.length)
    (h : th.pc = .created) : Ob objs th := by
  refine ⟨fun _ => ⟨id, hm, hl⟩, ?_, ?_⟩
  · intro hp; rw [h] at hp; rcases hp with hp | hp | hp <;> cases hp
  · intro b hp; rw [h] at hp; cases hp

theorem inv_step (s : LState) (t : Nat) (hi : Inv s) : Inv (step {} s t) := by
  unfold step
  cases hth : s.ths[t]? with
  | none => exact hi
  | some th =>
    have hob := hi.2 t th hth
    simp only
    cases hpc : th.pc with
    | start =>
      simp only [Bool.false_and, Bool.false_eq_true, if_false]
      split
      · exact inv_update s t _ s.objs s.reg _ hi (Nat.le_refl _) (fun _ h => h) hi.1 (Ob_idle _ _ (Or.inr rfl))
      · exact hi
    | locked =>
      cases hr : s.reg with
      | some id =>
        exact inv_update s t _ s.objs s.reg _ hi (Nat.le_refl _) (fun _ h => h) hi.1
          (Ob_holds _ _ id rfl (hi.1 id hr) (Or.inr (Or.inl rfl)))
      | none =>
        have := inv_update s t { pc := .created, mine := some s.objs.length } (s.objs ++ [false]) s.reg s.lock hi (by simp)
          (fun id h => objDone_append s.objs id h) (by intro id h; rw [hr] at h; cases h)
          (Ob_created _ _ s.objs.length rfl (by simp) rfl)
        simpa [setTh, hr] using this
    | created =>
      obtain ⟨id, hm, hl⟩ := hob.1 hpc
      simp only [Bool.false_eq_true, if_false, hm, Option.getD_some]
      exact inv_update s t _ (s.objs.set id true) s.reg _ hi (by simp) (fun j h => objDone_set s.objs id j h)
        (fun j h => objDone_set s.objs id j (hi.1 j h))
        (Ob_holds _ _ id rfl (objDone_set_self s.objs id hl) (Or.inl rfl))
    | executed =>
      obtain ⟨id, hm, hdone⟩ := hob.2.1 (Or.inl hpc)
      simp only [Bool.false_eq_true, if_false]
      exact inv_update s t _ s.objs th.mine _ hi (Nat.le_refl _) (fun _ h => h)
        (by intro j h; rw [hm] at h; cases h; exact hdone)
        (Ob_holds _ _ id hm hdone (Or.inr (Or.inl rfl)))
    | registered =>
      obtain ⟨id, hm, hdone⟩ := hob.2.1 (Or.inr (Or.inl hpc))
      exact inv_update s t _ s.objs s.reg none hi (Nat.le_refl _) (fun _ h => h) hi.1
        (Ob_holds _ _ id hm hdone (Or.inr (Or.inr (Or.inl rfl))))
    | released =>
      obtain ⟨id, hm, hdone⟩ := hob.2.1 (Or.inr (Or.inr hpc))
      have hd : objDone s.objs (th.mine.getD 0) = true := by rw [hm]; exact hdone
      simp only [hd]
      exact inv_update s t _ s.objs s.reg _ hi (Nat.le_refl _) (fun _ h => h) hi.1
        (Ob_holds _ _ id hm hdone (Or.inr (Or.inr (Or.inr rfl))))
    | done b => exact hi

theorem inv_init (n : Nat) : Inv (init n) := by
  refine ⟨?_, ?_⟩
  · intro id h; cases h
  intro t th hget
  have : th = {} := by
    simp only [init] at hget
    have := List.mem_of_getElem? hget
    exact (List.mem_replicate.mp this).2
  subst this
  exact Ob_idle _ _ (Or.inl rfl)

theorem inv_run (s : LState) (sched : List Nat) (hi : Inv s) : Inv (run {} s sched) := by
  induction sched generalizing s with
  | nil => exact hi
  | cons t rest ih => exact ih _ (inv_step s t hi)

/-- **C15 (a loaded module is complete)**: any number of threads, any schedule: every thread that has returned from `_load`
got a module whose `exec_module` had finished -/
theorem C15_loaded_module_complete (n : Nat) (sched : List Nat) : ∀ b ∈ results (run {} (init n) sched), b = true := by
  intro b hb
  have hi := inv_run (init n) sched (inv_init n)
  simp only [results, List.mem_filterMap] at hb
  obtain ⟨th, hmem, hpc⟩ := hb
  obtain ⟨t, hget⟩ := List.getElem?_of_mem hmem
  have hob := hi.2 t th hget
  cases hp : th.pc with
  | done b' =>
    simp only [hp, Option.some.injEq] at hpc
    rw [← hpc]; exact hob.2.2 b' hp
  | _ => simp [hp] at hpc

/-- with the module registered before it is executed and a lock-free look at `sys.modules` first, thread 1 returns the module
thread 0 has registered but not executed yet -/
theorem C15_load_registered_first_counterexample :
    false ∈ results (run { registerFirst := true, lockFreeHit := true } (init 2) [0, 0, 0, 1, 1]) := by decide

/-- … and each of the two changes alone is harmless on that schedule: it takes both -/
example : results (run { registerFirst := true } (init 2) [0, 0, 0, 1, 1, 0, 0, 0, 1, 1, 1, 1]) = [true, true] := by decide
example : results (run { lockFreeHit := true } (init 2) [0, 0, 0, 1, 1, 0, 0, 0, 1, 1, 1, 1]) = [true, true] := by decide

end ChamVerif.Sys.Load

import ChamVerif.PExpr
/-! # C08 — tal:repeat exposes correct repeat variables (index, number, parity, letter, roman) -/
namespace ChamVerif

/-- **tie**: the numeral table of the model is `RepeatItem.Roman`'s default table in /repo today -/
theorem C08_romanTable_tie : romanTable = Gen.romanTable := by decide

/-- value denoted by a decomposition -/
def decompValue (d : List (Nat × Nat × String)) : Nat := (d.map (fun (c, v, _) => c * v)).sum

theorem romanDecomp_value : ∀ (tbl : List (Nat × String)) (n : Nat),
    decompValue (romanDecomp tbl n) + (tbl.foldl (fun (m : Nat) (e : Nat × String) => m % e.1) n) = n := by
  intro tbl
  induction tbl with
  | nil => intro n; simp [romanDecomp, decompValue]
  | cons e tbl ih =>
    intro n
    obtain ⟨v, r⟩ := e
    simp only [romanDecomp, decompValue, List.map_cons, List.sum_cons, List.foldl_cons]
    have := ih (n % v)
    simp only [decompValue] at this
    have hdm := Nat.div_add_mod n v
    rw [Nat.mul_comm] at hdm
    omega

/-- a table that ends with the unit `(1, _)` leaves no remainder -/
theorem foldl_mod_unit (tbl : List (Nat × String)) (r : String) (n : Nat) :
    (tbl ++ [(1, r)]).foldl (fun (m : Nat) (e : Nat × String) => m % e.1) n = 0 := by
  simp [List.foldl_append, Nat.mod_one]

/-- **C08 (roman)**: for *every* position, the numerals emitted denote exactly `index + 1`:
the counts of the greedy decomposition times their values add up to the number. -/
theorem C08_roman_value (n : Nat) : decompValue (romanDecomp romanTable n) = n := by
  have h := romanDecomp_value romanTable n
  have hz : romanTable.foldl (fun (m : Nat) (e : Nat × String) => m % e.1) n = 0 :=
    foldl_mod_unit (romanTable.dropLast) "I" n
  omega

/-- the text is the numerals repeated by their counts, in table order -/
theorem C08_roman_text (n : Nat) :
    roman n = ((romanDecomp romanTable n).map (fun (c, _, r) => (List.replicate c (Str.ofString r)).flatten)).flatten := rfl

/-- canonical form below 4000: every subtractive numeral and every 5-unit at most once, units at most 3 times -/
def canonicalCounts (d : List (Nat × Nat × String)) : Bool :=
  d.all (fun (c, v, _) => if v == 1000 then true else if v == 100 || v == 10 || v == 1 then c ≤ 3 else c ≤ 1)

theorem C08_roman_canonical_lt_4000 : (List.range 4000).all (fun n => canonicalCounts (romanDecomp romanTable n)) = true := by
  decide +kernel

/-- base-26 value of a letter string -/
def lettersValue (base : Nat) (s : Str) : Nat := s.foldl (fun acc c => acc * 26 + (c - base)) 0

theorem letterFrom_digits (base : Nat) : ∀ (f index : Nat) (acc : Str), index < f →
    ∃ d, letterFrom base f index acc = d ++ acc ∧ d ≠ [] ∧ lettersValue base d = index ∧
      ∀ c ∈ d, base ≤ c ∧ c < base + 26 := by
  intro f
  induction f with
  | zero => intro index acc h; omega
  | succ f ih =>
    intro index acc h
    simp only [letterFrom]
    by_cases h0 : (index / 26 == 0) = true
    · simp only [h0, if_true]
      have hlt : index < 26 := by
        have : index / 26 = 0 := by simpa using h0
        omega
      refine ⟨[base + index % 26], by simp, by simp, ?_, ?_⟩
      · simp [lettersValue, Nat.mod_eq_of_lt hlt]
      · intro c hc; simp at hc; subst hc; omega
    · simp only [h0, Bool.false_eq_true, if_false]
      have hne : index / 26 ≠ 0 := by simpa using h0
      have hlt : index / 26 < f := by omega
      obtain ⟨d, hd, hdne, hv, hr⟩ := ih (index / 26) ((base + index % 26) :: acc) hlt
      refine ⟨d ++ [base + index % 26], by simp [hd], by simp, ?_, ?_⟩
      · simp only [lettersValue, List.foldl_append, List.foldl_cons, List.foldl_nil] at hv ⊢
        rw [hv]
        have := Nat.div_add_mod index 26
        omega
      · intro c hc
        simp only [List.mem_append, List.mem_singleton] at hc
        rcases hc with hc | hc
        · exact hr c hc
        · subst hc; omega

/-- **C08 (letter)**: for every position `i`, `letter` is the base-26 positional spelling of `i`
(digits `a…z`, most significant first, at least one digit); `Letter` likewise with `A…Z`. -/
theorem C08_letter (base i : Nat) :
    lettersValue base (letterFrom base (i + 2) i []) = i ∧ letterFrom base (i + 2) i [] ≠ [] ∧
    ∀ c ∈ letterFrom base (i + 2) i [], base ≤ c ∧ c < base + 26 := by
  obtain ⟨d, hd, hne, hv, hr⟩ := letterFrom_digits base (i + 2) i [] (by omega)
  simp only [List.append_nil] at hd
  rw [hd]
  exact ⟨hv, hne, hr⟩

/-- **C08 (position)**: at the `i`-th iteration (`consumed = i + 1`) of a loop over `len` items -/
theorem C08_index (len i : Nat) :
    let r : RepItem := { length := len, consumed := i + 1 }
    r.index = i := by
  simp [RepItem.index]

theorem C08_attrs (len i : Nat) (hi : i < len) :
    let r : RepItem := { length := len, consumed := i + 1 }
    (∀ s, repItemAttr r "index" s = (.ok (.cint i), s)) ∧
    (∀ s, repItemAttr r "number" s = (.ok (.cint (i + 1)), s)) ∧
    (∀ s, repItemAttr r "length" s = (.ok (.int len), s)) ∧
    (∀ s, repItemAttr r "start" s = (.ok (.cint (if i = 0 then 1 else 0)), s)) ∧
    (∀ s, repItemAttr r "end" s = (.ok (.cint (if i + 1 = len then 1 else 0)), s)) := by
  simp only [repItemAttr, RepItem.index]
  refine ⟨?_, ?_, ?_, ?_, ?_⟩ <;> intro s <;> simp [Pure.pure] <;> (try omega)

end ChamVerif

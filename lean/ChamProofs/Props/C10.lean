import ChamVerif.Pipeline
/-! # C10 — i18n: what the interpreter model does for `i18n:translate`, `i18n:name`, `i18n:domain` -/
namespace ChamVerif

/-- the state in which the body of a translation is evaluated: a fresh mapping for its names, a fresh stream -/
def tEnter (names : List Str) (s : RState) : RState :=
  let s1 : RState := { s with tmaps := names.map (fun n => (n, [])) :: s.tmaps }
  { s1 with streams := [] :: s1.streams }

def tNames (node : Node) : List Str := (namesOf 64 node).eraseDups

def tMapping (names : List Str) (s2 : RState) : Option (List (Str × Str)) :=
  if names.isEmpty then none else some (s2.tmaps.headD [])

def tTarget (s : RState) : Option Str := match s.env.topFrame.targetLang with | .str t => some t | _ => none

/-- **C10 (called exactly once, with the computed message)**: when the body of an element marked `i18n:translate=""`
renders to `body` (with its `i18n:name` children already replaced by `${name}` and collected in the mapping), the
translation function is called exactly once more than the body called it, with message id = default = `body` with
white space collapsed and trimmed, that mapping, and the domain, context and target language in force; and exactly
what it returns is appended to the output. -/
theorem C10_translate_once (cfg : ECfg) (al : List (Str × Val)) (f id : Nat) (node : Node) (s s2 : RState)
    (body top : Str) (rest : List Str)
    (hb : eval cfg al f node (tEnter (tNames node) s) = .ok () s2)
    (hs : s2.streams = body :: top :: rest)
    (hne : (stripStr (collapseWsStr body)).isEmpty = false) :
    ∃ s3, eval cfg al (f + 1) (.translate id none node) s = .ok () s3 ∧
      s3.x.tlog = s2.x.tlog.push {
        msgid := stripStr (collapseWsStr body), mapping := tMapping (tNames node) s2,
        dflt := some (stripStr (collapseWsStr body)), domain := s2.env.topFrame.domain, context := s2.env.topFrame.context,
        target := tTarget s2 } ∧
      s3.streams = (top ++ simpleTranslate cfg.tc.rx (stripStr (collapseWsStr body)) (tMapping (tNames node) s2)
        (some (stripStr (collapseWsStr body)))) :: rest := by
  unfold tEnter tNames at hb
  simp only [eval, bind, mModify, pushStream, hb, popStream, hs, mGet, hne, Bool.false_eq_true, if_false,
    liftX, callTranslate, emit]
  refine ⟨_, rfl, ?_, ?_⟩
  · simp only [tMapping, tTarget, tNames, List.isEmpty_iff]
    congr
  · simp only [tMapping, tNames, List.isEmpty_iff]

/-- with an explicit id the id is the message id and the computed text is the default; the call is made even when the
body is empty -/
theorem C10_translate_explicit (cfg : ECfg) (al : List (Str × Val)) (f id : Nat) (node : Node) (m : Str) (s s2 : RState)
    (body top : Str) (rest : List Str)
    (hb : eval cfg al f node (tEnter (tNames node) s) = .ok () s2)
    (hs : s2.streams = body :: top :: rest) :
    ∃ s3, eval cfg al (f + 1) (.translate id (some m) node) s = .ok () s3 ∧
      s3.x.tlog = s2.x.tlog.push {
        msgid := m, mapping := tMapping (tNames node) s2, dflt := some (stripStr (collapseWsStr body)),
        domain := s2.env.topFrame.domain, context := s2.env.topFrame.context, target := tTarget s2 } ∧
      s3.streams = (top ++ simpleTranslate cfg.tc.rx m (tMapping (tNames node) s2) (some (stripStr (collapseWsStr body)))) :: rest := by
  unfold tEnter tNames at hb
  simp only [eval, bind, mModify, pushStream, hb, popStream, hs, mGet, liftX, callTranslate, emit]
  refine ⟨_, rfl, ?_, ?_⟩
  · simp only [tMapping, tTarget, tNames, List.isEmpty_iff]
    congr
  · simp only [tMapping, tNames, List.isEmpty_iff]

/-- an element whose content renders to nothing (or white space) is not translated: no call, no output -/
theorem C10_empty_not_translated (cfg : ECfg) (al : List (Str × Val)) (f id : Nat) (node : Node) (s s2 : RState)
    (body top : Str) (rest : List Str)
    (hb : eval cfg al f node (tEnter (tNames node) s) = .ok () s2)
    (hs : s2.streams = body :: top :: rest)
    (he : (stripStr (collapseWsStr body)).isEmpty = true) :
    ∃ s3, eval cfg al (f + 1) (.translate id none node) s = .ok () s3 ∧ s3.x.tlog = s2.x.tlog ∧ s3.streams = top :: rest := by
  unfold tEnter tNames at hb
  simp only [eval, bind, mModify, pushStream, hb, popStream, hs, mGet, he, if_true, pure]
  exact ⟨_, rfl, rfl, rfl⟩

/-- an `i18n:name` child puts the placeholder `${name}` into the enclosing message and its own rendered markup into the
innermost mapping -/
theorem C10_name_emits_placeholder (cfg : ECfg) (al : List (Str × Val)) (f : Nat) (nm : Tok) (node : Node) (s s2 : RState)
    (v top : Str) (rest : List Str) (tm : List (Str × Str)) (tms : List (List (Str × Str)))
    (hb : eval cfg al f node { s with streams := [] :: s.streams } = .ok () s2)
    (hs : s2.streams = v :: top :: rest) (ht : s2.tmaps = tm :: tms) :
    ∃ s3, eval cfg al (f + 1) (.name nm node) s = .ok () s3 ∧
      s3.streams = (top ++ (lit "${" ++ nm.str ++ lit "}")) :: rest ∧
      s3.tmaps = tm.map (fun (k, x) => if k == nm.str then (k, v) else (k, x)) :: tms := by
  simp only [eval, bind, pushStream, mModify, hb, popStream, hs, emit, setTName, ht]
  exact ⟨_, rfl, rfl, rfl⟩

/-- white-space collapsing is a normal form: collapsing twice changes nothing more (message ids are stable) -/
theorem collapse_go_idem : ∀ (n m : Nat) (s : Str) (w : Bool), s.length < n → (collapseWsStr.go n s w).length < m →
    collapseWsStr.go m (collapseWsStr.go n s w) w = collapseWsStr.go n s w := by
  intro n
  induction n with
  | zero => intro m s w h; omega
  | succ n ih =>
    intro m s w hn hm
    cases s with
    | nil => cases m <;> simp [collapseWsStr.go]
    | cons c r =>
      have hr : r.length < n := by simp at hn; omega
      cases m with
      | zero => omega
      | succ m =>
        by_cases hc : Tok.isWs c = true
        · cases w
          · simp only [collapseWsStr.go, hc, if_true, Bool.false_eq_true, if_false] at hm ⊢
            have h32 : Tok.isWs 32 = true := by decide +kernel
            simp only [List.length_cons] at hm
            simp only [h32, if_true]
            rw [ih m r true hr (by omega)]
          · simp only [collapseWsStr.go, hc, if_true] at hm ⊢
            have := ih (m + 1) r true hr hm
            exact this
        · have hc' : Tok.isWs c = false := by simpa using hc
          simp only [collapseWsStr.go, hc', Bool.false_eq_true, if_false, List.length_cons] at hm ⊢
          rw [ih m r false hr (by omega)]

theorem C10_collapse_idempotent (s : Str) : collapseWsStr (collapseWsStr s) = collapseWsStr s := by
  unfold collapseWsStr
  exact collapse_go_idem _ _ s false (by omega) (by omega)

/-- `i18n:domain` is in force exactly inside its element: the frame's domain is `d` while the body is evaluated and is
put back afterwards (when the body does not raise) -/
theorem C10_domain_restored (cfg : ECfg) (al : List (Str × Val)) (f : Nat) (d : Str) (node : Node) (s s2 : RState)
    (fr fr2 : Frame) (frs frs2 : List Frame) (hf : s.env.frames = fr :: frs)
    (hb : eval cfg al f node { s with env := { s.env with frames := { fr with domain := some d } :: frs } } = .ok () s2)
    (h2 : s2.env.frames = fr2 :: frs2) :
    ∃ s3, eval cfg al (f + 1) (.domain d node) s = .ok () s3 ∧
      s3.env.frames = { fr2 with domain := fr.domain } :: frs2 := by
  simp only [eval, bind, mGet, modFrame, modEnv, mModify, hf, hb, Env.topFrame, List.headD_cons, h2]
  exact ⟨_, rfl, rfl⟩

end ChamVerif

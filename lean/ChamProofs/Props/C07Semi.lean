import ChamVerif.Tal
/-! # C07 — `;;` escapes in statement lists (`tal.split_parts`)

A `tal:attributes` / `tal:define` clause is a list of statements separated by `;`; a `;` that belongs to a statement is
written doubled.  `C07_statement_list_roundtrip`: for every list of statements — whatever semicolons they hold, at
their start, middle or end — writing each with its semicolons doubled and joining with `;` (with or without a trailing
`;`) is split back by the model of `split_parts` into exactly those statements.  In particular an escape that stands
directly next to a separator (`a;;;b`, `a;;;;;b`, `a;;;`) is read as the escape first. -/
namespace ChamVerif.C07Semi
open ChamVerif

/-- write a statement: double every semicolon -/
def escF : Str → Str
  | [] => []
  | c :: r => if c = 59 then 59 :: 59 :: escF r else c :: escF r

/-- join written statements with `;` -/
def joinParts : List Str → Str
  | [] => []
  | [p] => escF p
  | p :: q :: rest => escF p ++ 59 :: joinParts (q :: rest)

/-- `arg.replace(';;', '\0')`, structurally -/
def rep2 : Str → Str
  | [] => []
  | [c] => [c]
  | c :: d :: r => if c = 59 ∧ d = 59 then 0 :: rep2 r else c :: rep2 (d :: r)

/-- `p.replace('\0', ';')`, structurally -/
def unz (p : Str) : Str := p.map (fun c => if c = 0 then 59 else c)

/-- a statement with its semicolons turned into the placeholder -/
def zed (p : Str) : Str := p.map (fun c => if c = 59 then 0 else c)

theorem replaceAll_semis : ∀ (f : Nat) (s : Str), s.length < f → replaceAll [59, 59] [0] f s = rep2 s := by
  intro f
  induction f with
  | zero => intro s h; omega
  | succ f ih =>
    intro s h
    match s with
    | [] => simp [replaceAll, rep2]
    | [c] =>
      simp only [replaceAll, rep2]
      have : ([59, 59] : Str).isPrefixOf [c] = false := by simp [List.isPrefixOf]
      simp only [this, Bool.false_and, Bool.false_eq_true, if_false]
      cases f with
      | zero => simp [replaceAll]
      | succ f => simp [replaceAll]
    | c :: d :: r =>
      simp only [replaceAll, rep2]
      by_cases hcd : c = 59 ∧ d = 59
      · obtain ⟨hc, hd⟩ := hcd
        subst hc; subst hd
        simp only [List.isPrefixOf, beq_self_eq_true, Bool.and_self, List.isEmpty_cons, Bool.not_false, if_true, and_self,
          List.length_cons, List.length_nil, List.drop_succ_cons, List.drop_zero, List.singleton_append, Bool.true_and]
        rw [ih r (by simp only [List.length_cons] at h; omega)]
      · have hp : ([59, 59] : Str).isPrefixOf (c :: d :: r) = false := by
          simp only [List.isPrefixOf, Bool.and_true]
          by_cases hc : c = 59
          · have hd : d ≠ 59 := fun hd => hcd ⟨hc, hd⟩
            simp [hc, Ne.symm hd]
          · simp [Ne.symm hc]
        simp only [hp, Bool.false_and, Bool.false_eq_true, if_false, hcd]
        rw [ih (d :: r) (by simp only [List.length_cons] at h ⊢; omega)]

theorem replaceAll_nul : ∀ (f : Nat) (s : Str), s.length < f → replaceAll [0] [59] f s = unz s := by
  intro f
  induction f with
  | zero => intro s h; omega
  | succ f ih =>
    intro s h
    match s with
    | [] => simp [replaceAll, unz]
    | c :: r =>
      simp only [replaceAll, unz, List.map_cons]
      by_cases hc : c = 0
      · subst hc
        simp only [List.isPrefixOf, beq_self_eq_true, Bool.and_self, List.isEmpty_cons, Bool.not_false, if_true,
          List.length_cons, List.length_nil, List.drop_succ_cons, List.drop_zero, List.singleton_append, Bool.true_and]
        rw [ih r (by simp only [List.length_cons] at h; omega)]
        rfl
      · have hp : ([0] : Str).isPrefixOf (c :: r) = false := by simp [List.isPrefixOf, Ne.symm hc]
        simp only [hp, Bool.false_and, Bool.false_eq_true, if_false, hc]
        rw [ih r (by simp only [List.length_cons] at h; omega)]
        rfl

theorem rep2_cons_ne (c : Nat) (X : Str) (hc : c ≠ 59) : rep2 (c :: X) = c :: rep2 X := by
  cases X with
  | nil => simp [rep2]
  | cons d r => simp [rep2, hc]

/-- a separator that is not followed by another semicolon stays a separator -/
theorem rep2_sep (X : Str) (hX : X.head? ≠ some 59) : rep2 (59 :: X) = 59 :: rep2 X := by
  cases X with
  | nil => simp [rep2]
  | cons d r =>
    have hd : d ≠ 59 := by simpa using hX
    simp [rep2, hd]

/-- a written statement is read back with its semicolons as placeholders, whatever follows it -/
theorem rep2_escF (p R : Str) : rep2 (escF p ++ R) = zed p ++ rep2 R := by
  induction p with
  | nil => simp [escF, zed]
  | cons c r ih =>
    by_cases hc : c = 59
    · subst hc
      simp only [escF, if_true, List.cons_append, rep2, and_self, zed, List.map_cons]
      rw [ih]
      rfl
    · simp only [escF, hc, if_false, List.cons_append, zed, List.map_cons]
      rw [rep2_cons_ne _ _ hc, ih]
      rfl

theorem zed_no_semi (p : Str) : 59 ∉ zed p := by
  induction p with
  | nil => simp [zed]
  | cons c r ih =>
    simp only [zed, List.map_cons, List.mem_cons, not_or]
    refine ⟨?_, ih⟩
    by_cases hc : c = 59 <;> simp [hc]
    exact fun h => hc h.symm

theorem unz_zed (p : Str) (h0 : 0 ∉ p) : unz (zed p) = p := by
  induction p with
  | nil => rfl
  | cons c r ih =>
    simp only [List.mem_cons, not_or] at h0
    simp only [zed, unz, List.map_cons, List.map_map] at ih ⊢
    rw [ih h0.2]
    by_cases hc : c = 59
    · simp [hc]
    · have : c ≠ 0 := fun h => h0.1 h.symm
      simp [hc, this]

theorem splitOn1_append (z X : Str) (hz : 59 ∉ z) : Tok.splitOn1 59 (z ++ 59 :: X) = z :: Tok.splitOn1 59 X := by
  induction z with
  | nil =>
    simp only [List.nil_append, Tok.splitOn1]
    cases h : Tok.splitOn1 59 X with
    | nil =>
      exfalso
      cases X with
      | nil => simp [Tok.splitOn1] at h
      | cons c cs =>
        simp only [Tok.splitOn1] at h
        split at h
        · cases h
        · split at h <;> cases h
    | cons p ps => simp
  | cons c r ih =>
    simp only [List.mem_cons, not_or] at hz
    simp only [List.cons_append, Tok.splitOn1, ih hz.2]
    have : c ≠ 59 := fun h => hz.1 h.symm
    simp [this]

theorem splitOn1_none (z : Str) (hz : 59 ∉ z) : Tok.splitOn1 59 z = [z] := by
  induction z with
  | nil => rfl
  | cons c r ih =>
    simp only [List.mem_cons, not_or] at hz
    simp only [Tok.splitOn1, ih hz.2]
    have : c ≠ 59 := fun h => hz.1 h.symm
    simp [this]

/-- the string-level core of `split_parts` -/
def splitStrs (s : Str) : List Str :=
  (Tok.splitOn1 59 (replaceAll [59, 59] [0] (s.length + 1) s)).map (fun p => replaceAll [0] [59] (p.length + 1) p)

theorem splitStrs_eq (s : Str) : splitStrs s = (Tok.splitOn1 59 (rep2 s)).map unz := by
  unfold splitStrs
  rw [replaceAll_semis _ _ (by omega)]
  apply List.map_congr_left
  intro p _
  exact replaceAll_nul _ _ (by omega)

/-- every statement after the first starts with something that is not a semicolon (it starts with a name) -/
def StartsOk (ps : List Str) : Prop := ∀ q ∈ ps, ∃ c r, q = c :: r ∧ c ≠ 59

theorem joinParts_head (q : Str) (rest : List Str) (hq : ∃ c r, q = c :: r ∧ c ≠ 59) (T : Str) :
    (joinParts (q :: rest) ++ T).head? ≠ some 59 := by
  obtain ⟨c, r, rfl, hc⟩ := hq
  cases rest with
  | nil => simp [joinParts, escF, hc]
  | cons q2 rest => simp [joinParts, escF, hc]

/-- reading a joined list, followed by `T` (nothing, or the trailing semicolon) -/
theorem rep2_join : ∀ (ps : List Str) (p : Str) (T : Str), StartsOk ps → (T = [] ∨ T = [59]) →
    Tok.splitOn1 59 (rep2 (joinParts (p :: ps) ++ T)) = (p :: ps).map zed ++ (if T = [] then [] else [[]]) := by
  intro ps
  induction ps with
  | nil =>
    intro p T _ hT
    simp only [joinParts, List.map_cons, List.map_nil]
    rw [rep2_escF]
    rcases hT with rfl | rfl
    · simp [rep2, splitOn1_none _ (zed_no_semi p)]
    · simp only [rep2]
      rw [splitOn1_append _ _ (zed_no_semi p)]
      simp [Tok.splitOn1]
  | cons q rest ih =>
    intro p T hs hT
    have hq := hs q (by simp)
    have hs' : StartsOk rest := fun x hx => hs x (by simp [hx])
    simp only [joinParts, List.append_assoc, List.cons_append]
    rw [rep2_escF, rep2_sep _ (joinParts_head q rest hq T), splitOn1_append _ _ (zed_no_semi p), ih q T hs' hT]
    simp

/-- **C07 (`;;` is read as an escape first, at the string level)** -/
theorem splitStrs_join (p : Str) (ps : List Str) (T : Str) (h0 : ∀ x ∈ p :: ps, 0 ∉ x) (hs : StartsOk ps)
    (hT : T = [] ∨ T = [59]) :
    splitStrs (joinParts (p :: ps) ++ T) = (p :: ps) ++ (if T = [] then [] else [[]]) := by
  rw [splitStrs_eq, rep2_join ps p T hs hT, List.map_append, List.map_map]
  congr 1
  · have : ∀ l : List Str, (∀ x ∈ l, 0 ∉ x) → l.map (unz ∘ zed) = l := by
      intro l hl
      induction l with
      | nil => rfl
      | cons a l ih =>
        simp only [List.map_cons, Function.comp]
        rw [unz_zed a (hl a (by simp))]
        congr 1
        exact ih (fun x hx => hl x (by simp [hx]))
    exact this _ h0
  · rcases hT with rfl | rfl <;> simp [unz]

/-- a part that `split_parts` deletes when it is the last of several: nothing but white space -/
def blank (l : Str) : Bool := ((l.dropWhile Tok.isWs).reverse.dropWhile Tok.isWs).reverse.isEmpty

theorem strip_blank (t : Tok) : (Tok.strip t).str.isEmpty = blank t.str := rfl

theorem splitParts_strs (n pos : Nat) : ∀ (l : List Str), (Tok.splitParts n pos l).map (·.str) = l
  | [] => rfl
  | p :: ps => by
    simp only [Tok.splitParts, List.map_cons]
    rw [splitParts_strs n _ ps]
termination_by l => l.length

/-- what the model of `split_parts` returns, as strings, for a clause without character entities -/
theorem splitParts_strs_eq (rx : Rx) (q : Quirks) (arg : Tok) (hent : insertSemis rx (arg.str.length + 1) arg.str 0 = arg.str) :
    (splitParts rx q arg).map (·.str) =
      (match (splitStrs arg.str).getLast? with
       | some l => if (splitStrs arg.str).length > 1 && blank l then (splitStrs arg.str).dropLast else splitStrs arg.str
       | none => splitStrs arg.str) := by
  have hparts : ((Tok.split (!q.splitIgnoresSep) 59 (Tok.replace [59, 59] [0] { arg with str := arg.str })).map
      (Tok.replace [0] [59])).map (·.str) = splitStrs arg.str := by
    simp only [Tok.split, Tok.replace, List.map_map, splitStrs]
    have hcomp : ((fun (x : Tok) => x.str) ∘ Tok.replace [0] [59]) =
        ((fun p => replaceAll [0] [59] (p.length + 1) p) ∘ fun (t : Tok) => t.str) := by
      funext t; rfl
    rw [hcomp, ← List.map_map, splitParts_strs]
  unfold splitParts
  simp only [hent]
  generalize hP : (Tok.split (!q.splitIgnoresSep) 59 (Tok.replace [59, 59] [0] { arg with str := arg.str })).map
      (Tok.replace [0] [59]) = P at hparts
  rw [← hparts]
  cases hl : P.getLast? with
  | none =>
    have : P = [] := List.getLast?_eq_none_iff.mp hl
    simp [this]
  | some l =>
    have hlast : (P.map (·.str)).getLast? = some l.str := by simp [List.getLast?_map, hl]
    simp only [hlast, List.length_map]
    rw [show blank l.str = (Tok.strip l).str.isEmpty from rfl]
    by_cases hc : (decide (P.length > 1) && (Tok.strip l).str.isEmpty) = true
    · rw [if_pos hc, if_pos hc, List.map_dropLast]
    · rw [if_neg hc, if_neg hc]

/-- **C07 (statement lists round-trip through `split_parts`)**: statements `p :: ps` (no NUL character; each one after
the first starts with something other than `;`, as every statement that starts with a name does; the last one is not
blank), written with their semicolons doubled, joined by `;`, with or without a trailing `;`, and free of character
entities, are split by the model of `split_parts` into exactly `p :: ps`. -/
theorem C07_statement_list_roundtrip (rx : Rx) (q : Quirks) (pos : Nat) (p : Str) (ps : List Str) (T : Str)
    (h0 : ∀ x ∈ p :: ps, 0 ∉ x) (hs : StartsOk ps) (hT : T = [] ∨ T = [59])
    (hlast : ∀ l, (p :: ps).getLast? = some l → blank l = false)
    (hent : insertSemis rx ((joinParts (p :: ps) ++ T).length + 1) (joinParts (p :: ps) ++ T) 0 = joinParts (p :: ps) ++ T) :
    (splitParts rx q { str := joinParts (p :: ps) ++ T, pos := pos }).map (·.str) = p :: ps := by
  rw [splitParts_strs_eq rx q _ hent]
  simp only
  rw [splitStrs_join p ps T h0 hs hT]
  rcases hT with rfl | rfl
  · simp only [if_true, List.append_nil]
    cases hl : (p :: ps).getLast? with
    | none => rfl
    | some l => simp [hlast l hl]
  · simp only [List.cons_ne_nil, if_false]
    have : ((p :: ps) ++ [[]]).getLast? = some ([] : Str) := List.getLast?_concat
    rw [this]
    have hb : blank [] = true := rfl
    have hd : ((p :: ps) ++ [[]]).dropLast = p :: ps := List.dropLast_concat
    simp only [List.length_append, List.length_cons, List.length_nil, hb, Bool.and_true]
    rw [hd]
    simp

/-- the premises are satisfiable, and the escape next to a separator is what is exercised: `a;` and `b` written `a;;;b` -/
example : joinParts [[97, 59], [98]] = [97, 59, 59, 59, 98] ∧ splitStrs [97, 59, 59, 59, 98] = [[97, 59], [98]] := by decide

end ChamVerif.C07Semi

import ChamVerif.Tal
import ChamProofs.Props.C11
/-! # C11 — the tokens of clause-parser errors are source slices

For a statement clause that is itself a slice of the source and needs none of the text surgery of `split_parts`
(no `;;` escape, no entity that gets an extra `;`, no NUL character) every error raised by `parse_defines`,
`parse_attributes`, `parse_substitution` and `i18n.parse_attributes` carries a token that is again a slice of the
source: `source[offset : offset + len(token)] == token`.  The side condition `clauseSimple` is decidable and is what the
clause parsers check first; clauses outside it are where the known findings D-11b/c live. -/
namespace ChamVerif

/-- `split_parts` has nothing to rewrite in this clause -/
def clauseSimple (rx : Rx) (q : Quirks) (arg : Tok) : Bool :=
  insertSemis rx (arg.str.length + 1) arg.str 0 == arg.str &&
  replaceAll [59, 59] [0] (arg.str.length + 1) arg.str == arg.str &&
  (Tok.split (!q.splitIgnoresSep) 59 arg).all (fun p => replaceAll [0] [59] (p.str.length + 1) p.str == p.str)

theorem dropLast_mem {α} {l : List α} {a : α} (h : a ∈ l.dropLast) : a ∈ l := (List.dropLast_sublist l).subset h

theorem splitParts_anchored (rx : Rx) (q : Quirks) (hq : q.splitIgnoresSep = false) (src : Str) (arg : Tok)
    (ha : Anchored src arg) (hs : clauseSimple rx q arg = true) : ∀ p ∈ splitParts rx q arg, Anchored src p := by
  unfold clauseSimple at hs
  simp only [Bool.and_eq_true, beq_iff_eq, List.all_eq_true, hq, Bool.not_false] at hs
  obtain ⟨⟨h1, h2⟩, h3⟩ := hs
  have hparts : (Tok.split true 59 arg).map (Tok.replace [0] [59]) = Tok.split true 59 arg := by
    conv => rhs; rw [← List.map_id (Tok.split true 59 arg)]
    apply List.map_congr_left
    intro p hp
    have := h3 p hp
    unfold Tok.replace
    rw [this]; rfl
  have hall : ∀ p ∈ (Tok.split true 59 arg).map (Tok.replace [0] [59]), Anchored src p := by
    rw [hparts]; exact C11_split_anchored src 59 arg ha
  intro p hp
  unfold splitParts at hp
  simp only [hq, Bool.not_false, h1, Tok.replace, h2] at hp
  apply hall
  have harg : ({ str := arg.str, pos := arg.pos } : Tok) = arg := rfl
  rw [harg] at hp
  split at hp
  · split at hp
    · exact dropLast_mem hp
    · exact hp
  · exact hp

theorem mapM_error {α β ε} (f : α → Except ε β) : ∀ (l : List α) (e : ε), l.mapM f = .error e → ∃ a ∈ l, f a = .error e := by
  intro l
  induction l with
  | nil => intro e h; simp [List.mapM_nil, pure, Except.pure] at h
  | cons a l ih =>
    intro e h
    rw [List.mapM_cons] at h
    simp only [bind, Except.bind] at h
    cases hf : f a with
    | error e' =>
      rw [hf] at h
      simp only [Except.error.injEq] at h
      exact ⟨a, List.mem_cons_self, by rw [hf, h]⟩
    | ok b =>
      rw [hf] at h
      simp only at h
      cases hm : l.mapM f with
      | error e' =>
        rw [hm] at h
        simp only [Except.error.injEq] at h
        obtain ⟨a', ha', hfa'⟩ := ih e' hm
        exact ⟨a', List.mem_cons_of_mem _ ha', by rw [hfa', h]⟩
      | ok bs => rw [hm] at h; simp [pure, Except.pure] at h

theorem foldlM_error {α β ε} (f : β → α → Except ε β) : ∀ (l : List α) (init : β) (e : ε),
    l.foldlM f init = .error e → ∃ acc, ∃ a ∈ l, f acc a = .error e := by
  intro l
  induction l with
  | nil => intro init e h; simp [List.foldlM_nil, pure, Except.pure] at h
  | cons a l ih =>
    intro init e h
    simp only [List.foldlM_cons, bind, Except.bind] at h
    cases hf : f init a with
    | error e' =>
      rw [hf] at h
      simp only [Except.error.injEq] at h
      exact ⟨init, a, List.mem_cons_self, by rw [hf, h]⟩
    | ok b =>
      rw [hf] at h
      obtain ⟨acc, a', ha', hfa'⟩ := ih b e h
      exact ⟨acc, a', List.mem_cons_of_mem _ ha', hfa'⟩

/-- **C11 (`tal:define` / `tal:repeat` clauses)** -/
theorem C11_defines_error_anchored (rx : Rx) (q : Quirks) (hq : q.splitIgnoresSep = false) (src : Str) (clause : Tok)
    (ha : Anchored src clause) (hs : clauseSimple rx q clause = true) (cls msg : String) (tok : Tok)
    (h : parseDefines rx q clause = .error (.template cls msg tok)) : Anchored src tok := by
  unfold parseDefines at h
  obtain ⟨part, hpart, hf⟩ := mapM_error _ _ _ h
  have hanch := splitParts_anchored rx q hq src clause ha hs part hpart
  simp only at hf
  split at hf
  · simp only [mkErr, Except.error.injEq, CErr.template.injEq] at hf
    rw [← hf.2.2]; exact hanch
  · simp [pure, Except.pure] at hf

/-- **C11 (`tal:attributes` clauses)** -/
theorem C11_attributes_error_anchored (rx : Rx) (q : Quirks) (hq : q.splitIgnoresSep = false) (src : Str) (clause : Tok)
    (ha : Anchored src clause) (hs : clauseSimple rx q clause = true) (cls msg : String) (tok : Tok)
    (h : parseAttributes rx q clause = .error (.template cls msg tok)) : Anchored src tok := by
  unfold parseAttributes at h
  simp only [bind, Except.bind] at h
  split at h
  · rename_i e hfold
    simp only [Except.error.injEq] at h
    subst h
    obtain ⟨acc, part, hpart, hf⟩ := foldlM_error _ _ _ _ hfold
    have hanch := splitParts_anchored rx q hq src clause ha hs part hpart
    split at hf <;> split at hf <;>
      first
      | (simp only [mkErr, Except.error.injEq, CErr.template.injEq] at hf; rw [← hf.2.2]; exact hanch)
      | (simp [pure, Except.pure] at hf)
  · simp [pure, Except.pure] at h

/-- **C11 (`tal:content` / `tal:replace` / `tal:on-error` clauses)**: the token is the clause itself -/
theorem C11_substitution_error_anchored (rx : Rx) (src : Str) (clause : Tok) (ha : Anchored src clause)
    (cls msg : String) (tok : Tok) (h : parseSubstitution rx clause = .error (.template cls msg tok)) :
    Anchored src tok := by
  unfold parseSubstitution at h
  split at h
  · simp only [mkErr, Except.error.injEq, CErr.template.injEq] at h
    rw [← h.2.2]; exact ha
  · simp [pure, Except.pure] at h

/-- the side condition holds for an ordinary clause, and the error case is reached: in `a 1; 2b x` (at offset 20 of
its template) the part ` 2b x` is rejected and reported at offset 23 -/
example : clauseSimple Rx.live Quirks.current { str := lit "a 1; 2b x", pos := 20 } = true ∧
    (match parseDefines Rx.live Quirks.current { str := lit "a 1; 2b x", pos := 20 } with
      | .error (.template _ _ t) => t.pos == 24 && t.str == lit " 2b x"
      | _ => false) = true := by decide +kernel

end ChamVerif

import ChamVerif.Tal
/-! # C07 — attribute rendering: what `prepare_attributes` guarantees -/
namespace ChamVerif

/-- the static part of `prepare_attributes`: attributes that are not dropped, in order, verbatim -/
def staticEntries (attrs : List Attr) (drop : List Str) : List PAttr :=
  (attrs.filter (fun a => !drop.contains a.name.str)).map
    (fun a => (⟨some a.name.str, some a.value, a.quote.str, a.space.str, a.eq.str, none⟩ : PAttr))

theorem static_fold (drop : List Str) : ∀ (attrs : List Attr) (acc : List PAttr) (norm : List (Str × Int)),
    (attrs.foldl (fun (acc : List PAttr × List (Str × Int)) a =>
      if drop.contains a.name.str then acc else
        let pa : PAttr := ⟨some a.name.str, some a.value, a.quote.str, a.space.str, a.eq.str, none⟩
        let l := acc.1 ++ [pa]
        (l, (lowerStr a.name.str, (l.length : Int) - 1) :: acc.2.filter (·.1 != lowerStr a.name.str))) (acc, norm)).1
    = acc ++ staticEntries attrs drop := by
  intro attrs
  induction attrs with
  | nil => intro acc norm; simp [staticEntries]
  | cons a attrs ih =>
    intro acc norm
    simp only [List.foldl_cons]
    by_cases hd : drop.contains a.name.str = true
    · simp only [hd, if_true]
      rw [ih]
      have hd' : a.name.str ∈ drop := by simpa using hd
      simp [staticEntries, hd']
    · simp only [hd, Bool.false_eq_true, if_false]
      rw [ih]
      have hd' : a.name.str ∉ drop := by simpa using hd
      simp [staticEntries, hd']

/-- **C07 (static attributes verbatim)**: with nothing dynamic targeting the element, the prepared
list is exactly the static attributes as written — name, value, quote, spacing and `=` — in order,
minus the language attributes. -/
theorem C07_static_verbatim (q : Quirks) (attrs : List Attr) (nsOf : Attr → Str) (ns : List ((Str × Str) × Tok)) (dropNs : List Str) :
    prepareAttributes q attrs [] [] nsOf ns dropNs = some (staticEntries attrs (dropNames q attrs nsOf ns dropNs)) := by
  unfold prepareAttributes
  simp only [List.foldlM_nil, List.foldl_nil, Option.pure_def, Option.map_some]
  congr 1
  have := static_fold (dropNames q attrs nsOf ns dropNs) attrs [] []
  simpa using this

/-- Python list indexing used for `attributes[index]` -/
theorem pyIndex_nonneg (len : Nat) (i : Nat) (h : i < len) : pyIndex len (i : Int) = some i := by
  unfold pyIndex
  have h1 : ¬ ((i : Int) < 0) := by omega
  simp only [h1, if_false]
  have : (0 ≤ (i : Int) && decide ((i : Int) < (len : Int))) = true := by simp; omega
  simp [this, h]

/-- `-1` (what the code before the D-07a fix recorded for the first new name) denotes the *last* entry -/
theorem pyIndex_minus_one (len : Nat) (h : 0 < len) : pyIndex len (-1) = some (len - 1) := by
  unfold pyIndex
  simp only [show ((-1 : Int) < 0) from by omega, if_true]
  have : (0 ≤ (-1 : Int) + (len : Int) && decide ((-1 : Int) + (len : Int) < (len : Int))) = true := by simp; omega
  simp only [this, if_true]
  congr 1
  omega

/-- D-07e repaired in /repo: the expression of a named or dictionary `tal:attributes` entry is what the (once decoded)
attribute value says — `createAttributeNodes` does not decode it again -/
theorem C07_attr_decoded_once : Quirks.current.attrDecodeTwice = false := rfl

end ChamVerif

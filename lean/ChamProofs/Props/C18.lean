import ChamVerif.Build
import ChamProofs.Props.C07
/-! # C18 — template-language markup never leaks; independence of prefix spelling

`prepare_attributes` decides which attributes of a start tag reach the output.  The theorems below hold for
*every* attribute list, dynamic list and i18n list (no bound), for the model of /repo after the D-18a fixes
(`zipPairing = false`); the counterexamples show that they were false before. -/
namespace ChamVerif

/-- invariant principle for `foldlM` in `Option` -/
theorem option_foldlM_inv {α β : Type} (P : β → Prop) (f : β → α → Option β) :
    ∀ (l : List α) (init r : β), (∀ b a b', a ∈ l → P b → f b a = some b' → P b') → P init →
      l.foldlM f init = some r → P r := by
  intro l
  induction l with
  | nil => intro init r _ hi h; simp at h; exact h ▸ hi
  | cons a l ih =>
    intro init r hstep hi h
    simp only [List.foldlM_cons] at h
    cases hf : f init a with
    | none => simp [hf, bind, Option.bind] at h
    | some b =>
      simp only [hf, bind, Option.bind] at h
      exact ih b r (fun b0 a0 b' ha => hstep b0 a0 b' (List.mem_cons_of_mem _ ha))
        (hstep init a b (List.mem_cons_self ..) hi hf) h

theorem foldl_inv {α β : Type} (P : β → Prop) (f : β → α → β) :
    ∀ (l : List α) (init : β), (∀ b a, a ∈ l → P b → P (f b a)) → P init → P (l.foldl f init) := by
  intro l
  induction l with
  | nil => intro init _ hi; simpa
  | cons a l ih =>
    intro init hstep hi
    simp only [List.foldl_cons]
    exact ih _ (fun b a0 ha => hstep b a0 (List.mem_cons_of_mem _ ha)) (hstep init a (List.mem_cons_self ..) hi)

/-- names a start tag may legitimately show: its static attributes that are not dropped, the targets of
`tal:attributes`, the names listed by `i18n:attributes` -/
def allowedNames (attrs : List Attr) (drop : List Str) (dyn : List (Option Tok × Tok)) (i18nAttrs : List (Str × Option Str)) : List Str :=
  (attrs.filter (fun a => !drop.contains a.name.str)).map (·.name.str) ++
    dyn.filterMap (fun d => d.1.map (·.str)) ++ i18nAttrs.map (·.1)

def NamesIn (S : List Str) (l : List PAttr) : Prop := ∀ p ∈ l, ∀ n, p.name = some n → n ∈ S

theorem namesIn_append {S l1 l2} (h1 : NamesIn S l1) (h2 : NamesIn S l2) : NamesIn S (l1 ++ l2) := by
  intro p hp n hn
  rcases List.mem_append.mp hp with h | h
  · exact h1 p h n hn
  · exact h2 p h n hn

theorem namesIn_set {S l k pa} (h1 : NamesIn S l) (h2 : ∀ n, pa.name = some n → n ∈ S) : NamesIn S (l.set k pa) := by
  intro p hp n hn
  rcases List.mem_or_eq_of_mem_set hp with h | h
  · exact h1 p h n hn
  · subst h; exact h2 n hn

/-- **C18 (nothing of the language leaks through the attribute list)**: every named entry of the prepared
attribute list is a static attribute that is *not* dropped, a `tal:attributes` target or an
`i18n:attributes` name.  For every attribute list, dynamic list and i18n list. -/
theorem C18_names_allowed (q : Quirks) (attrs : List Attr) (dyn : List (Option Tok × Tok))
    (i18nAttrs : List (Str × Option Str)) (nsOf : Attr → Str) (ns : List ((Str × Str) × Tok)) (dropNs : List Str)
    (res : List PAttr) (h : prepareAttributes q attrs dyn i18nAttrs nsOf ns dropNs = some res) :
    NamesIn (allowedNames attrs (dropNames q attrs nsOf ns dropNs) dyn i18nAttrs) res := by
  unfold prepareAttributes at h
  simp only [Option.map_eq_some_iff] at h
  obtain ⟨ad, had, hres⟩ := h
  subst hres
  generalize dropNames q attrs nsOf ns dropNs = drop at *
  generalize hS : allowedNames attrs drop dyn i18nAttrs = S
  -- phase 1
  have h1 := static_fold drop attrs [] []
  simp only [List.nil_append] at h1
  have hinit : NamesIn S (attrs.foldl (fun (acc : List PAttr × List (Str × Int)) a =>
      if drop.contains a.name.str then acc else
        let pa : PAttr := ⟨some a.name.str, some a.value, a.quote.str, a.space.str, a.eq.str, none⟩
        let l := acc.1 ++ [pa]
        (l, (lowerStr a.name.str, (l.length : Int) - 1) :: acc.2.filter (·.1 != lowerStr a.name.str))) ([], [])).1 := by
    rw [h1]
    intro p hp n hn
    simp only [staticEntries, List.mem_map, List.mem_filter] at hp
    obtain ⟨a, ⟨ha, hnd⟩, rfl⟩ := hp
    simp only [Option.some.injEq] at hn
    subst hn
    simp only [← hS, allowedNames, List.mem_append, List.mem_map, List.mem_filter]
    exact Or.inl (Or.inl ⟨a, ⟨ha, hnd⟩, rfl⟩)
  -- phase 2
  have h2 : NamesIn S ad.1 := by
    refine option_foldlM_inv (fun acc => NamesIn S acc.1) _ dyn _ ad ?_ hinit had
    intro b d b' hd hb hstep
    obtain ⟨name, expr⟩ := d
    have hname : ∀ n, name.map (·.str) = some n → n ∈ S := by
      intro n hn
      simp only [← hS, allowedNames, List.mem_append, List.mem_filterMap]
      exact Or.inl (Or.inr ⟨(name, expr), hd, hn⟩)
    simp only at hstep
    split at hstep
    · split at hstep
      · cases hstep
      · cases hstep
        exact namesIn_set hb (by intro n hn; exact hname n hn)
    · cases hstep
      exact namesIn_append hb (by
        intro p hp n hn
        simp only [List.mem_singleton] at hp
        subst hp
        exact hname n hn)
  -- phase 3
  refine foldl_inv (fun acc => NamesIn S acc.1) _ i18nAttrs ad ?_ h2
  intro b a ha hb
  obtain ⟨name, x⟩ := a
  show NamesIn S (Prod.fst (if _ then _ else _))
  split
  · exact hb
  · exact namesIn_append hb (by
      intro p hp n hn
      simp only [List.mem_singleton] at hp
      subst hp
      simp only [Option.some.injEq] at hn
      subst hn
      simp only [← hS, allowedNames, List.mem_append, List.mem_map]
      exact Or.inr ⟨(name, x), ha, rfl⟩)

/-- after the fix: an attribute whose resolved namespace is a language namespace, or that declares one, is
never among the allowed static names -/
theorem C18_language_attr_dropped (attrs : List Attr) (nsOf : Attr → Str) (ns : List ((Str × Str) × Tok)) (dropNs : List Str)
    (q : Quirks) (hq : q.zipPairing = false) (a : Attr) (ha : a ∈ attrs) (hl : isDropped dropNs (nsOf a) a.value.str = true) :
    a.name.str ∈ dropNames q attrs nsOf ns dropNs := by
  simp only [dropNames, hq, Bool.false_eq_true, if_false, List.mem_map, List.mem_filter]
  exact ⟨a, ⟨ha, hl⟩, rfl⟩

/-- … and nothing else is dropped: a dropped name is the name of a language attribute or declaration -/
theorem C18_only_language_dropped (attrs : List Attr) (nsOf : Attr → Str) (ns : List ((Str × Str) × Tok)) (dropNs : List Str)
    (q : Quirks) (hq : q.zipPairing = false) (n : Str) (hn : n ∈ dropNames q attrs nsOf ns dropNs) :
    ∃ a ∈ attrs, a.name.str = n ∧ isDropped dropNs (nsOf a) a.value.str = true := by
  simp only [dropNames, hq, Bool.false_eq_true, if_false, List.mem_map, List.mem_filter] at hn
  obtain ⟨a, ⟨ha, hl⟩, rfl⟩ := hn
  exact ⟨a, ha, rfl, hl⟩

/-- what the start tag shows of an entry apart from its (possibly re-spelled) name and dynamic value -/
def PAttr.shape (p : PAttr) : Option Tok × Str × Str × Str := (p.text, p.quote, p.space, p.eq)

theorem map_set_same {α β : Type} (f : α → β) (l : List α) (k : Nat) (a : α) (d : α) (hk : k < l.length)
    (h : f a = f (l.getD k d)) : (l.set k a).map f = l.map f := by
  rw [List.map_set, h]
  have : l.getD k d = l[k] := by simp [List.getD, hk]
  rw [this]
  apply List.ext_getElem
  · simp
  · intro i h1 h2
    by_cases hik : k = i
    · subst hik; simp
    · simp [List.getElem_set_ne hik]

theorem pyIndex_lt {len : Nat} {i : Int} {k : Nat} (h : pyIndex len i = some k) : k < len := by
  unfold pyIndex at h
  by_cases hi : i < 0
  · simp only [hi, if_true] at h
    by_cases hc : (decide (0 ≤ i + (len : Int)) && decide (i + (len : Int) < (len : Int))) = true
    · simp only [hc, if_true, Option.some.injEq] at h
      subst h
      simp at hc
      omega
    · simp [hc] at h
  · simp only [hi, if_false] at h
    by_cases hc : (decide (0 ≤ i) && decide (i < (len : Int))) = true
    · simp only [hc, if_true, Option.some.injEq] at h
      subst h
      simp at hc
      omega
    · simp [hc] at h

/-- **C18 (every other attribute is preserved)**: the static attributes that are not dropped keep their value, quote,
spacing and `=`, in source order, at the head of the prepared list, whatever `tal:attributes` and
`i18n:attributes` add or re-target (those only append entries or replace name/expression in place). -/
theorem C18_others_preserved (q : Quirks) (attrs : List Attr) (dyn : List (Option Tok × Tok))
    (i18nAttrs : List (Str × Option Str)) (nsOf : Attr → Str) (ns : List ((Str × Str) × Tok)) (dropNs : List Str)
    (res : List PAttr) (h : prepareAttributes q attrs dyn i18nAttrs nsOf ns dropNs = some res) :
    (staticEntries attrs (dropNames q attrs nsOf ns dropNs)).map PAttr.shape <+: res.map PAttr.shape := by
  unfold prepareAttributes at h
  simp only [Option.map_eq_some_iff] at h
  obtain ⟨ad, had, hres⟩ := h
  subst hres
  generalize dropNames q attrs nsOf ns dropNs = drop at *
  generalize hS : (staticEntries attrs drop).map PAttr.shape = S
  have h1 := static_fold drop attrs [] []
  simp only [List.nil_append] at h1
  have hinit : S <+: (attrs.foldl (fun (acc : List PAttr × List (Str × Int)) a =>
      if drop.contains a.name.str then acc else
        let pa : PAttr := ⟨some a.name.str, some a.value, a.quote.str, a.space.str, a.eq.str, none⟩
        let l := acc.1 ++ [pa]
        (l, (lowerStr a.name.str, (l.length : Int) - 1) :: acc.2.filter (·.1 != lowerStr a.name.str))) ([], [])).1.map PAttr.shape := by
    rw [h1, hS]; exact List.prefix_refl _
  have h2 : S <+: ad.1.map PAttr.shape := by
    refine option_foldlM_inv (fun acc => S <+: acc.1.map PAttr.shape) _ dyn _ ad ?_ hinit had
    intro b d b' _ hb hstep
    obtain ⟨name, expr⟩ := d
    simp only at hstep
    split at hstep
    · split at hstep
      · cases hstep
      · rename_i k hk
        cases hstep
        show S <+: (b.1.set k _).map PAttr.shape
        have := map_set_same PAttr.shape b.1 k
          (⟨name.map (·.str), (b.1.getD k default).text, (b.1.getD k default).quote, (b.1.getD k default).space,
            (b.1.getD k default).eq, some expr⟩ : PAttr) default (pyIndex_lt hk) rfl
        rw [this]
        exact hb
    · cases hstep
      show S <+: (b.1 ++ _).map PAttr.shape
      rw [List.map_append]
      exact List.IsPrefix.trans hb (List.prefix_append _ _)
  refine foldl_inv (fun acc => S <+: acc.1.map PAttr.shape) _ i18nAttrs ad ?_ h2
  intro b a _ hb
  obtain ⟨name, x⟩ := a
  show S <+: List.map PAttr.shape (Prod.fst (if _ then _ else _))
  split
  · exact hb
  · show S <+: (b.1 ++ _).map PAttr.shape
    rw [List.map_append]
    exact List.IsPrefix.trans hb (List.prefix_append _ _)

/-! ## `data-<prefix>-<name>` attributes -/

/-- is `a` a control attribute in data spelling (after the fix: only prefixes bound to a language namespace) -/
def isControlData (m : NsMap) (dropNs : List Str) (a : Attr) : Bool :=
  match dataTarget Quirks.current m dropNs a with
  | .ok (some _) => true
  | _ => false

theorem dataTarget_ok (m : NsMap) (dropNs : List Str) (a : Attr) : ∃ r, dataTarget Quirks.current m dropNs a = .ok r := by
  unfold dataTarget
  simp only [Quirks.current, Bool.false_eq_true, if_false, Bool.false_or]
  split
  · split
    · exact ⟨_, rfl⟩
    · split
      · exact ⟨_, rfl⟩
      · split <;> exact ⟨_, rfl⟩
  · exact ⟨_, rfl⟩

theorem convert_fold (m : NsMap) (dropNs : List Str) : ∀ (attrs : List Attr) (ns : List ((Str × Str) × Tok)) (acc : List Attr),
    ∃ ns', attrs.foldlM (convertStep Quirks.current dropNs m) (ns, acc)
      = (.ok (ns', acc ++ attrs.filter (fun a => !isControlData m dropNs a)) : CRes _) := by
  intro attrs
  induction attrs with
  | nil => intro ns acc; exact ⟨ns, by simp [pure, Except.pure]⟩
  | cons a attrs ih =>
    intro ns acc
    simp only [List.foldlM_cons]
    obtain ⟨r, hr⟩ := dataTarget_ok m dropNs a
    cases r with
    | none =>
      obtain ⟨ns', h'⟩ := ih ns (acc ++ [a])
      refine ⟨ns', ?_⟩
      simp only [convertStep, hr, bind, Except.bind, pure, Except.pure] at h' ⊢
      rw [h']
      simp [isControlData, hr]
    | some key =>
      obtain ⟨ns', h'⟩ := ih (odSet ns key a.value) acc
      refine ⟨ns', ?_⟩
      simp only [convertStep, hr, bind, Except.bind, pure, Except.pure] at h' ⊢
      rw [h']
      simp [isControlData, hr]

/-- **C18 (enabling data attributes leaves ordinary `data-*` attributes alone)**: the conversion never fails and removes
from the start tag exactly the `data-<p>-<name>` attributes whose prefix is bound to a language namespace; every
other attribute — `data-foo`, `data-x-y` with an unbound or foreign prefix — stays, in order. -/
theorem C18_data_ordinary_untouched (m : NsMap) (dropNs : List Str) (ns : List ((Str × Str) × Tok)) (attrs : List Attr) :
    ∃ ns', convertDataAttributes Quirks.current dropNs ns attrs m =
      .ok (ns', attrs.filter (fun a => !isControlData m dropNs a)) := by
  obtain ⟨ns', h⟩ := convert_fold m dropNs attrs ns []
  exact ⟨ns', by simpa [convertDataAttributes] using h⟩

/-- a control attribute in data spelling resolves to a *language* namespace -/
theorem C18_data_control_is_language (m : NsMap) (dropNs : List Str) (a : Attr) (key : Str × Str)
    (h : dataTarget Quirks.current m dropNs a = .ok (some key)) : key.1 ∈ dropNs := by
  unfold dataTarget at h
  simp only [Quirks.current, Bool.false_eq_true, if_false, Bool.false_or] at h
  split at h
  · split at h
    · cases h
    · split at h
      · cases h
      · split at h
        · rename_i hc
          cases h
          simpa using hc
        · cases h
  · cases h

/-! ## independence of prefix spelling at the parser level -/

/-- the resolved form of an attribute: (namespace URI, local name) ↦ value -/
def resolvedKey (m : NsMap) (default : Str) (a : Attr) : Str × Str :=
  match splitColon a.name.str with
  | some (pfx, local_) => ((m.get (some pfx)).getD default, local_)
  | none => (default, a.name.str)

theorem unpackStep_ok (m : NsMap) (default : Str) (d : List ((Str × Str) × Tok)) (a : Attr) :
    unpackStep m default false d a = .ok (odSet d (resolvedKey m default a) a.value) := by
  unfold unpackStep resolvedKey
  cases hs : splitColon a.name.str with
  | none => rfl
  | some pl =>
    obtain ⟨pfx, local_⟩ := pl
    cases hm : m.get (some pfx) <;> simp [pure, Except.pure, hm]

theorem unpack_eq_foldl (m : NsMap) (default : Str) : ∀ (attrs : List Attr) (d : List ((Str × Str) × Tok)),
    attrs.foldlM (unpackStep m default false) d
    = (.ok (attrs.foldl (fun d a => odSet d (resolvedKey m default a) a.value) d) : CRes _) := by
  intro attrs
  induction attrs with
  | nil => intro d; rfl
  | cons a attrs ih =>
    intro d
    simp only [List.foldlM_cons, List.foldl_cons, unpackStep_ok, bind, Except.bind]
    exact ih _

/-- **C18 (prefix spelling is invisible after resolution)**: the namespaced attribute dictionary a start tag yields
depends on its attributes only through their resolved `(namespace URI, local name) ↦ value` — so two spellings whose
attributes resolve alike (default prefix, any other prefix bound to the same URI on any ancestor, or no prefix on
an element of that namespace) give the same dictionary, hence the same statements. -/
theorem C18_unpack_prefix_invariant (m1 m2 : NsMap) (d1 d2 : Str) (attrs1 attrs2 : List Attr)
    (h : attrs1.map (fun a => (resolvedKey m1 d1 a, a.value)) = attrs2.map (fun a => (resolvedKey m2 d2 a, a.value))) :
    unpackAttributes attrs1 m1 d1 false = unpackAttributes attrs2 m2 d2 false := by
  unfold unpackAttributes
  rw [unpack_eq_foldl m1 d1 attrs1 [], unpack_eq_foldl m2 d2 attrs2 []]
  congr 1
  have e1 : ∀ (m : NsMap) (d : Str) (attrs : List Attr) (acc : List ((Str × Str) × Tok)),
      attrs.foldl (fun acc a => odSet acc (resolvedKey m d a) a.value) acc =
      (attrs.map (fun a => (resolvedKey m d a, a.value))).foldl (fun acc kv => odSet acc kv.1 kv.2) acc := by
    intro m d attrs
    induction attrs with
    | nil => intro acc; rfl
    | cons a attrs ih => intro acc; simp only [List.foldl_cons, List.map_cons]; exact ih _
  rw [e1, e1, h]

/-! ## before the fix -/

def exAttr (n v : String) : Attr := ⟨⟨lit " ", 0⟩, ⟨lit n, 0⟩, ⟨lit "=", 0⟩, ⟨lit "\"", 0⟩, ⟨lit v, 0⟩⟩

/-- D-18a: with positional pairing, `<a b="1" b="2" tal:content="1"/>` kept `tal:content` (and the theorem
`C18_language_attr_dropped` was false): the witness, decided by evaluation -/
theorem C18_zip_counterexample :
    let attrs := [exAttr "b" "1", exAttr "b" "2", exAttr "tal:content" "1"]
    let ns : List ((Str × Str) × Tok) := [((XML_NS, lit "b"), ⟨lit "2", 0⟩), ((TAL, lit "content"), ⟨lit "1", 0⟩)]
    let nsOf : Attr → Str := fun a => if a.name.str = lit "tal:content" then TAL else XML_NS
    lit "tal:content" ∉ dropNames { Quirks.current with zipPairing := true } attrs nsOf ns [TAL] ∧
    lit "tal:content" ∈ dropNames Quirks.current attrs nsOf ns [TAL] := by
  decide +kernel

theorem C18_quirk_fixed : Quirks.current.zipPairing = false := rfl

end ChamVerif

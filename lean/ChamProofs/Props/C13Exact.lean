import ChamProofs.GrowsEval
/-! # C13 on the whole interpreter: the fallback replaces exactly the failed element's output -/
namespace ChamVerif
open ChamVerif.Out

/-- **rendering only appends**: for every node, scope, state and fuel — whatever was on the output stack before is
still there afterwards, with the current stream extended at its end (when the evaluation raises there may be
unfinished sub-streams on top) -/
theorem good_eval (cfg : ECfg) (hq : cfg.tc.q.sharedFallbackVar = false) (al : List (Str × Val)) (f : Nat) (node : Node) :
    Good (eval cfg al f node) := (good_all cfg hq f).1 al node

/-- the state in which the guarded element runs (its saved length is recorded in the frame) -/
def onErrorEnter (id : Nat) (s : RState) : RState :=
  { s with env := match s.env.frames with
    | fr :: rest => { s.env with frames := { fr with saved := (id, (s.streams.headD []).length) :: fr.saved.filter (·.1 != id) } :: rest }
    | [] => s.env }

/-- **C13 (exact replacement)**: if the guarded element raises an `Exception` — after emitting anything, at any depth,
inside any number of unfinished translation sub-streams — then `tal:on-error` continues with the fallback from a
state whose output is *exactly* what it was before the element (prefix untouched, partial output discarded), with
`error` bound and the handler called once; the rest of the element's effect on the output is the fallback's; the error records of the handled failure are dropped
(what the list held when the element was entered stays). -/
theorem C13_exact (cfg : ECfg) (hq : cfg.tc.q.sharedFallbackVar = false) (al : List (Str × Val)) (f id : Nat)
    (fallback node : Node) (s sb : RState) (top : Str) (rest : List Str) (ex : Exc)
    (hs : s.streams = top :: rest)
    (hbody : eval cfg al f node (onErrorEnter id s) = .raised ex sb)
    (hexc : isSubclass cfg ex.cls ["Exception"] = true) :
    ∃ s2, s2.streams = top :: rest ∧ s2.handled = sb.handled + 1 ∧
      (∃ pos, s2.env.get (lit "error") = some (Val.errorInfo ex.cls ex.msg pos) ∧ pos.isSome = sb.x.token.isSome) ∧
      s2.errs = sb.errs.extract 0 s.errs.size ∧
      eval cfg al (f + 1) (.onError id fallback node) s = eval cfg al f fallback s2 := by
  obtain ⟨extra, δ, hδ⟩ := ((good_eval cfg hq al f node).at_ (onErrorEnter id s) top rest (by simpa [onErrorEnter] using hs)).2 ex sb hbody
  cases ho : onErrorHandle cfg id (1 + rest.length) top.length ex sb with
  | none =>
    exfalso
    unfold onErrorHandle at ho
    cases ho
  | some s2 =>
    obtain ⟨hx, hh, _⟩ := C13_handler_exact cfg hq id top δ rest extra ex sb s2 hδ ho
    refine ⟨{ s2 with tmaps := s2.tmaps.drop (s2.tmaps.length - s.tmaps.length), errs := s2.errs.extract 0 s.errs.size },
      hx, hh, ?_, ?_, ?_⟩
    · exact C13_error_bound cfg id _ _ ex sb s2 ho
    · have : s2.errs = sb.errs := by
        unfold onErrorHandle at ho
        simp only [Option.some.injEq] at ho; rw [← ho]
      simp only [this]
    · have hlen : s.streams.length = 1 + rest.length := by rw [hs]; simp [Nat.add_comm]
      have hhd : (s.streams.headD []).length = top.length := by rw [hs]; rfl
      simp only [eval, hq, Bool.false_eq_true, if_false]
      split
      · rename_i s' heq
        have hc := heq.symm.trans hbody
        cases hc
      · rename_i w heq
        have hc := heq.symm.trans hbody
        cases hc
      · rename_i ex' sb' heq
        have hc := heq.symm.trans hbody
        cases hc
        simp only [hexc, Bool.not_true, Bool.false_eq_true, if_false]
        have ho2 : onErrorHandle cfg id s.streams.length (s.streams.headD []).length ex sb = some s2 := by
          rw [hlen, hhd]; exact ho
        split
        · rename_i hn
          have : onErrorHandle cfg id s.streams.length (s.streams.headD []).length ex sb = none := hn
          rw [ho2] at this; cases this
        · rename_i s2' hs2
          have : onErrorHandle cfg id s.streams.length (s.streams.headD []).length ex sb = some s2' := hs2
          rw [ho2] at this; cases this
          rfl

/-- no failure: the element renders as without `tal:on-error` -/
theorem C13_pass_through (cfg : ECfg) (hq : cfg.tc.q.sharedFallbackVar = false) (al : List (Str × Val)) (f id : Nat)
    (fallback node : Node) (s s' : RState)
    (hbody : eval cfg al f node (onErrorEnter id s) = .ok () s') :
    eval cfg al (f + 1) (.onError id fallback node) s = .ok () s' := by
  simp only [eval, hq, Bool.false_eq_true, if_false]
  split
  · rename_i s'' heq
    have hc := heq.symm.trans hbody
    cases hc; rfl
  · rename_i w heq
    have hc := heq.symm.trans hbody
    cases hc
  · rename_i ex' sb' heq
    have hc := heq.symm.trans hbody
    cases hc

/-- exceptions outside the `Exception` hierarchy are not handled -/
theorem C13_base_exception_propagates (cfg : ECfg) (hq : cfg.tc.q.sharedFallbackVar = false) (al : List (Str × Val)) (f id : Nat)
    (fallback node : Node) (s sb : RState) (ex : Exc)
    (hbody : eval cfg al f node (onErrorEnter id s) = .raised ex sb)
    (hexc : isSubclass cfg ex.cls ["Exception"] = false) :
    eval cfg al (f + 1) (.onError id fallback node) s = .raised ex sb := by
  simp only [eval, hq, Bool.false_eq_true, if_false]
  split
  · rename_i s'' heq
    have hc := heq.symm.trans hbody
    cases hc
  · rename_i w heq
    have hc := heq.symm.trans hbody
    cases hc
  · rename_i ex' sb' heq
    have hc := heq.symm.trans hbody
    cases hc
    simp [hexc]

/-- **C12 (a handled failure leaves no record)**: the fallback of `tal:on-error` starts with at most the error records
the list held when the element was entered — whatever the functions the exception passed through (macros, slot
fillers) appended is dropped, so a later failure is reported alone (the behaviour of /repo after the D-12b fix) -/
theorem C12_handled_records_dropped (cfg : ECfg) (hq : cfg.tc.q.sharedFallbackVar = false) (al : List (Str × Val)) (f id : Nat)
    (fallback node : Node) (s sb : RState) (top : Str) (rest : List Str) (ex : Exc)
    (hs : s.streams = top :: rest)
    (hbody : eval cfg al f node (onErrorEnter id s) = .raised ex sb)
    (hexc : isSubclass cfg ex.cls ["Exception"] = true) :
    ∃ s2, s2.errs.size ≤ s.errs.size ∧ s2.errs = sb.errs.extract 0 s.errs.size ∧
      eval cfg al (f + 1) (.onError id fallback node) s = eval cfg al f fallback s2 := by
  obtain ⟨s2, _, _, _, herr, hev⟩ := C13_exact cfg hq al f id fallback node s sb top rest ex hs hbody hexc
  refine ⟨s2, ?_, herr, hev⟩
  rw [herr, Array.size_extract]
  omega

end ChamVerif

import ChamVerif.Tales
/-! # C06 — `${…}` interpolation is delimited correctly and `$$` escapes it -/
namespace ChamVerif

/-- `str.replace('$$', '$')` leaves text without `$` untouched -/
theorem undouble_no_dollar (s : Str) (h : 36 ∉ s) : undoubleDollar s = s := by
  induction s with
  | nil => rfl
  | cons c s ih =>
    have hc : c ≠ 36 := fun e => h (by simp [e])
    have hs : 36 ∉ s := fun e => h (by simp [e])
    rw [undoubleDollar.eq_def]
    split
    · simp_all
    · rename_i heq; simp only [List.cons.injEq] at heq; rw [← heq.1, ← heq.2, ih hs]
    · simp_all

/-- `$$` yields a single `$` -/
theorem undouble_pair (r : Str) : undoubleDollar (36 :: 36 :: r) = 36 :: undoubleDollar r := by
  rw [undoubleDollar]

/-- scanning a text that is complete (ends outside string literals) and then more text is scanning the
rest from the stack reached — provided the rest does not begin with a quote (which could turn a
trailing empty string literal into a triple quote) -/
theorem scan_append : ∀ (a : Str) (m : ScanMode) (st st' : List Nat) (b : Str),
    (∀ h, b.head? = some h → h ≠ 39 ∧ h ≠ 34) →
    scan m st a = .ok st' → scan m st (a ++ b) = scan .out st' b := by
  intro a
  induction a with
  | nil =>
    intro m st st' b _ h
    cases m <;> simp [scan] at h
    subst h; rfl
  | cons c r ih =>
    intro m st st' b hb h
    cases m with
    | esc q =>
      simp only [scan] at h
      simp only [List.cons_append, scan]
      exact ih _ _ _ b hb h
    | str q =>
      simp only [scan] at h
      simp only [List.cons_append, scan]
      split at h
      · rename_i h92; simp only [h92, if_true]; exact ih _ _ _ b hb h
      · rename_i h92
        simp only [h92, if_false]
        split at h
        · simp at h
        · rename_i h10
          simp only [h10, if_false]
          split at h
          · rename_i hq; simp only [hq, if_true]; exact ih _ _ _ b hb h
          · rename_i hq; simp only [hq, if_false]; exact ih _ _ _ b hb h
    | out =>
      simp only [scan] at h
      simp only [List.cons_append, scan]
      split at h
      · rename_i hquote
        simp only [hquote, if_true]
        have hc : c = 39 ∨ c = 34 := by simpa using hquote
        split at h
        · simp at h
        · rename_i htri
          -- the lookahead of the triple-quote test over `r ++ b`
          have htri' : isTriple c (r ++ b) = false := by
            unfold isTriple at htri ⊢
            cases r with
            | nil =>
              -- `scan (.str c) st []` is invalid
              simp [scan] at h
            | cons d r1 =>
              cases r1 with
              | nil =>
                cases b with
                | nil => simp
                | cons e b' =>
                  have he := hb e rfl
                  simp only [List.cons_append, List.nil_append]
                  rcases hc with hc | hc <;> subst hc <;> simp [he.1, he.2]
              | cons e r2 => simpa using htri
          simp only [htri', Bool.false_eq_true, if_false]
          exact ih _ _ _ b hb h
      · rename_i hquote
        simp only [hquote, if_false]
        split at h
        · rename_i hopen; simp only [hopen, if_true]; exact ih _ _ _ b hb h
        · rename_i hopen
          simp only [hopen, if_false]
          split at h
          · rename_i hclose
            simp only [hclose, if_true]
            split at h
            · rename_i rest hp; (try simp only [hp]); exact ih _ _ _ b hb h
            · simp at h
          · rename_i hclose
            simp only [hclose, if_false]
            split at h
            · simp at h
            · rename_i h35; simp only [h35, if_false]; exact ih _ _ _ b hb h

/-- **C06 (own closing brace)**: an expression whose brackets are balanced (and whose string literals
are closed) followed by `}` and anything else is certainly not valid Python — so of all the
candidates `${ e } …}` the scanner tries, none longer than the one ending at the expression's own
closing brace can be accepted. -/
theorem C06_own_brace (e x : Str) (h : scan .out [] e = .ok []) :
    definitelyInvalid (e ++ 125 :: x) = true := by
  unfold definitelyInvalid
  have hb : ∀ h, (125 :: x).head? = some h → h ≠ 39 ∧ h ≠ 34 := by
    intro h hh; simp at hh; subst hh; decide
  rw [scan_append e .out [] [] (125 :: x) hb h]
  simp [scan, popClose]

/-- non-vacuity: a brace-rich expression with a `}` inside a string literal is balanced -/
example : scan .out [] (Str.ofString "{'a': '}'}['a'] + f(x[1])") = .ok [] := by decide +kernel

end ChamVerif

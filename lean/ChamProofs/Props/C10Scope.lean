import ChamProofs.SettingsEval
import ChamVerif.Baseline
/-! # C10 on the whole interpreter: i18n settings end with their element -/
namespace ChamVerif
open ChamVerif.I18n

/-- **C10 (domain, context and target language are those of the nearest enclosing element)**: whenever the evaluation
of a node completes — any node, scope, state and fuel; macro calls, slot fillers, repeats and translations included —
every function frame has the i18n settings it had before, provided the node contains no `tal:on-error` at its own
function level.  So a setting is in force exactly inside the element that makes it. -/
theorem C10_settings_scoped (cfg : ECfg) (al : List (Str × Val)) (f : Nat) (node : Node) (h : H node)
    (s s' : RState) (hs : s.env.frames ≠ []) (he : eval cfg al f node s = .ok () s') :
    settings s' = settings s :=
  ((neutral_all cfg f).1 al node h).at_ s hs () s' he

/-- the hypothesis is necessary (finding D-10a): when the guarded element raises, the restoring assignment of an
`i18n:domain` inside it is skipped and the setting stays in force.  Witness, decided by evaluation: an element with
`tal:on-error` whose body sets the domain "leak" and then fails (a start tag without suffix raises TypeError). -/
theorem C10_on_error_leaks :
    let cfg : ECfg := { tc := { rx := Rx.baseline, q := Quirks.current, oracle := [] }, tab := [], pyBuiltins := [], talesExc := [],
                        existsExc := [], excParents := [("TypeError", ["TypeError", "Exception"])], booleanAttrs := [], src := [] }
    let node : Node := .onError 1 (.text (lit "E")) (.domain (lit "leak") (.start [] [] none (.seq [])))
    let s0 : RState := { streams := [[]], env := { own := [], root := [], rcontext := [], repeats := [], frames := [{}] },
                         x := { token := some (0, 0) }, handled := 0 }
    (match eval cfg [] 6 node s0 with
     | .ok () s' => (s'.streams, s'.env.topFrame.domain)
     | _ => ([], none)) = ([lit "E"], some (lit "leak")) := by
  decide +kernel

end ChamVerif

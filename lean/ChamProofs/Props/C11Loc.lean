import ChamVerif.Lex
/-! # C11 — line and column identify the offset exactly

`Token.location` turns an offset into (line, column).  `C11_location_exact`: for every source and every offset inside it,
the offset is recovered from the pair — it is the start of that line (the position after the `line - 1`-th newline,
`lineStart`) plus the column — and the column stays within the line (no newline between the line start and the
offset).  Only `\n` counts as a line end. -/
namespace ChamVerif.C11Loc
open ChamVerif

/-- the offset at which line `n + 1` starts: the position after the `n`-th newline -/
def lineStart : Str → Nat → Nat
  | _, 0 => 0
  | [], _ + 1 => 0
  | c :: r, n + 1 => 1 + (if c = 10 then lineStart r n else lineStart r (n + 1))

/-- length of the text after the last newline -/
def lastLineLen (body : Str) : Nat := (body.reverse.takeWhile (· != 10)).length

theorem tw_len_le (p : Nat → Bool) : ∀ (l : Str), (l.takeWhile p).length ≤ l.length
  | [] => by simp
  | x :: xs => by
    simp only [List.takeWhile]
    cases p x
    · simp
    · simp only [List.length_cons]; have := tw_len_le p xs; omega

theorem tw_all (p : Nat → Bool) : ∀ (l : Str), (∀ x ∈ l, p x = true) → l.takeWhile p = l
  | [], _ => rfl
  | x :: xs, h => by
    have hx : p x = true := h x (by simp)
    simp only [List.takeWhile, hx]
    rw [tw_all p xs (fun y hy => h y (by simp [hy]))]

theorem tw_mem (p : Nat → Bool) : ∀ (l : Str) (x : Nat), x ∈ l.takeWhile p → p x = true
  | [], _, h => by simp at h
  | y :: ys, x, h => by
    simp only [List.takeWhile] at h
    cases hy : p y
    · simp [hy] at h
    · simp only [hy, List.mem_cons] at h
      rcases h with rfl | h
      · exact hy
      · exact tw_mem p ys x h

theorem takeWhile_append_single (p : Nat → Bool) (a : Str) (c : Nat) :
    (a ++ [c]).takeWhile p = if a.all p then a ++ (if p c then [c] else []) else a.takeWhile p := by
  induction a with
  | nil => simp [List.takeWhile]; cases p c <;> rfl
  | cons x xs ih =>
    by_cases hx : p x = true
    · simp only [List.cons_append, List.takeWhile, hx, List.all_cons, Bool.true_and, ih]
      split <;> rfl
    · have hx' : p x = false := by simpa using hx
      simp [List.takeWhile, hx']

theorem all_ne_iff (r : Str) : (r.reverse.all (· != 10)) = true ↔ 10 ∉ r := by
  simp [List.all_eq_true]
  constructor
  · intro h hm; exact h 10 hm rfl
  · intro h x hx hx10; exact h (hx10 ▸ hx)

theorem lastLineLen_cons (c : Nat) (r : Str) :
    lastLineLen (c :: r) = if 10 ∈ r then lastLineLen r else (if c = 10 then r.length else r.length + 1) := by
  unfold lastLineLen
  rw [List.reverse_cons, takeWhile_append_single]
  by_cases hm : 10 ∈ r
  · have : (r.reverse.all (· != 10)) = false := by
      cases h : r.reverse.all (· != 10)
      · rfl
      · exact absurd ((all_ne_iff r).mp h) (by simpa using hm)
    simp [this, hm]
  · have : (r.reverse.all (· != 10)) = true := (all_ne_iff r).mpr hm
    simp only [this, if_true, hm, if_false]
    by_cases hc : c = 10
    · simp [hc]
    · simp [hc]

theorem lastLineLen_le (body : Str) : lastLineLen body ≤ body.length := by
  unfold lastLineLen
  have := tw_len_le (· != 10) body.reverse
  simpa using this

/-- the start of the last line of `body`, as `lineStart` finds it in any text that begins with `body` -/
theorem lineStart_body : ∀ (body rest : Str), lineStart (body ++ rest) (body.count 10) + lastLineLen body = body.length := by
  intro body
  induction body with
  | nil => intro rest; simp [lineStart, lastLineLen]
  | cons c r ih =>
    intro rest
    rw [lastLineLen_cons]
    by_cases hc : c = 10
    · subst hc
      have hcount : (10 :: r).count 10 = r.count 10 + 1 := by simp
      rw [hcount]
      simp only [List.cons_append, lineStart, if_true, List.length_cons]
      have := ih rest
      by_cases hm : 10 ∈ r
      · simp only [hm, if_true]; omega
      · simp only [hm, if_false]
        have h0 : r.count 10 = 0 := List.count_eq_zero.mpr hm
        have hl : lastLineLen r = r.length := by
          unfold lastLineLen
          have hall : ∀ x ∈ r.reverse, (x != 10) = true := by
            intro x hx
            have hx' : x ∈ r := by simpa using hx
            have : x ≠ 10 := fun h => hm (h ▸ hx')
            simpa using this
          rw [tw_all _ _ hall]; simp
        rw [h0] at this ⊢
        simp only [lineStart] at this ⊢
        omega
    · have hcount : (c :: r).count 10 = r.count 10 := by simp [List.count_cons, hc]
      rw [hcount]
      simp only [List.cons_append, List.length_cons]
      have := ih rest
      by_cases hm : 10 ∈ r
      · simp only [hm, if_true]
        have hpos : 0 < r.count 10 := List.count_pos_iff.mpr hm
        obtain ⟨n, hn⟩ : ∃ n, r.count 10 = n + 1 := ⟨r.count 10 - 1, by omega⟩
        rw [hn] at this ⊢
        simp only [lineStart, hc, if_false]
        omega
      · simp only [hm, if_false, hc]
        have h0 : r.count 10 = 0 := List.count_eq_zero.mpr hm
        rw [h0]
        simp only [lineStart]
        omega

/-- **C11 (line and column identify the offset exactly)** -/
theorem C11_location_exact (src : Str) (t : Tok) (hpos : t.pos ≤ src.length) :
    lineStart src ((Tok.location src t).1 - 1) + (Tok.location src t).2 = t.pos ∧
    10 ∉ (src.take t.pos).drop (lineStart src ((Tok.location src t).1 - 1)) := by
  have hsplit : src = src.take t.pos ++ src.drop t.pos := (List.take_append_drop _ _).symm
  have hlen : (src.take t.pos).length = t.pos := by simp [List.length_take]; omega
  have hls := lineStart_body (src.take t.pos) (src.drop t.pos)
  rw [← hsplit] at hls
  have hle := lastLineLen_le (src.take t.pos)
  have hloc1 : (Tok.location src t).1 - 1 = (src.take t.pos).count 10 := by simp [Tok.location]
  have hloc2 : (Tok.location src t).2 = lastLineLen (src.take t.pos) := by
    simp only [Tok.location, lastLineLen, hlen]
    have : (List.takeWhile (fun x => x != 10) (List.take t.pos src).reverse).length ≤ t.pos := by
      have := lastLineLen_le (src.take t.pos); unfold lastLineLen at this; omega
    omega
  rw [hloc1, hloc2]
  constructor
  · omega
  · -- what follows the line start inside the body is its last line: no newline in it
    have hstart : lineStart src ((src.take t.pos).count 10) = (src.take t.pos).length - lastLineLen (src.take t.pos) := by omega
    rw [hstart]
    intro hm
    -- the last `lastLineLen` characters of the body are those of `takeWhile (≠ 10)` on the reverse
    have hrev : ((src.take t.pos).drop ((src.take t.pos).length - lastLineLen (src.take t.pos))).reverse
        = (src.take t.pos).reverse.take (lastLineLen (src.take t.pos)) := by
      rw [List.reverse_drop]
      congr 1
      omega
    have hm' : 10 ∈ (src.take t.pos).reverse.take (lastLineLen (src.take t.pos)) := by
      rw [← hrev]; simpa using hm
    have htw : (src.take t.pos).reverse.take (lastLineLen (src.take t.pos)) = (src.take t.pos).reverse.takeWhile (· != 10) := by
      unfold lastLineLen
      generalize (src.take t.pos).reverse = l
      induction l with
      | nil => rfl
      | cons x xs ih =>
        simp only [List.takeWhile]
        cases hx : (x != 10)
        · simp
        · simp [ih]
    rw [htw] at hm'
    have := tw_mem _ _ _ hm'
    simp at this

/-- form feed, vertical tab, U+0085, U+2028 are ordinary characters: only a line feed starts a new line -/
example : Tok.location (Str.ofString "a\x0cb\x0bc\n  x") { str := [120], pos := 8 } = (2, 2) := by decide

end ChamVerif.C11Loc

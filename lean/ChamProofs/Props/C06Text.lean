import ChamProofs.Props.C06Loop
/-! # C06 — a whole text: every `${expr}` is found, ended at its own brace, in order

`C06_text_parts`: a text made of literal runs (without `$`) and any number of `${e}` parts is split by the Interpolator into exactly
those literals and those expressions, in order, each expression token at its own offset — provided each expression compiles and the
longer candidates that start at it are rejected (`SegsOk`, the premises of `C06_candidate_own_brace` for every part).  Induction over
the parts, one `C06_interp_step` each. -/
namespace ChamVerif.C06Loop
open ChamVerif

/-- a text made of segments: a literal, `${e}`, …, and a final literal -/
def textOf : List (Str × Str) → Str → Str
  | [], tail => tail
  | (l, e) :: rest, tail => l ++ 36 :: 123 :: (e ++ 125 :: textOf rest tail)

/-- what a part is, without the compiled expression: a literal, or the text and offset of an expression -/
inductive Shape
  | lit (s : Str)
  | expr (text : Str) (pos : Nat)
  deriving DecidableEq, Repr

def shapeOf : IPart → Shape
  | .lit s => .lit s
  | .expr _ tok text => .expr text tok.pos

def expected : Nat → List (Str × Str) → Str → List Shape
  | _, [], tail => if tail.isEmpty then [] else [.lit tail]
  | pos, (l, e) :: rest, tail =>
    (if l.isEmpty then [] else [Shape.lit l]) ++ [Shape.expr e (pos + (l.length + 2))] ++
      expected (pos + l.length + (e.length + 3)) rest tail

variable (c : TCfg)

/-- the premises, part by part: `f` is the fuel the Interpolator has when it reaches the part, `pos` the offset of the text that is left -/
def SegsOk (g0 : Nat) (decode : Bool) : Nat → Nat → List (Str × Str) → Str → Prop
  | f, _, [], tail => 36 ∉ tail ∧ 1 ≤ f
  | f, pos, (l, e) :: rest, tail =>
    ∃ f', f = f' + 2 ∧ 36 ∉ l ∧ e ≠ [] ∧ (decode = true → 38 ∉ e) ∧ (decode = true → 38 ∉ textOf rest tail) ∧
      g0 + (textOf rest tail).length ≤ f' ∧ LongerRejected c g0 f' e (textOf rest tail) (pos + (l.length + 2)) ∧
      (∀ g, g0 ≤ g → g ≤ f' → ∃ te, compileTales c g { str := e, pos := pos + (l.length + 2) } = .ok te) ∧
      SegsOk g0 decode (f' + 1) (pos + l.length + (e.length + 3)) rest tail

/-- **C06 (a whole text)** -/
theorem C06_text_parts (h : RxOk c) (g0 : Nat) (decode : Bool) :
    ∀ (segs : List (Str × Str)) (tail : Str) (f pos : Nat), SegsOk c g0 decode f pos segs tail →
      ∃ parts, compileInterp c f { str := textOf segs tail, pos := pos } true decode = .ok parts ∧
        parts.map shapeOf = expected pos segs tail := by
  intro segs
  induction segs with
  | nil =>
    intro tail f pos hok
    obtain ⟨ht, hf⟩ := hok
    obtain ⟨f', rfl⟩ : ∃ f', f = f' + 1 := ⟨f - 1, by omega⟩
    refine ⟨_, compileInterp_no_dollar c h f' pos tail decode ht, ?_⟩
    simp only [expected]
    split <;> simp [shapeOf]
  | cons seg rest ih =>
    intro tail f pos hok
    obtain ⟨l, e⟩ := seg
    obtain ⟨f', rfl, hl, he, hae, hap, hf, hrej, hacc, hrest⟩ := hok
    obtain ⟨g, te, _, _, _, hstep⟩ := C06_interp_step c h g0 e he l (textOf rest tail) pos f' decode hae hap hl hf hrej hacc
    obtain ⟨ps, hps, hshape⟩ := ih tail (f' + 1) (pos + l.length + (e.length + 3)) hrest
    refine ⟨_, by rw [textOf, hstep, hps]; rfl, ?_⟩
    simp only [List.map_append, List.map_cons, List.map_nil, shapeOf, expected, hshape]
    cases l <;> simp [shapeOf]

end ChamVerif.C06Loop

import ChamVerif.Scope
/-! # C05 — variable scoping: the `Scope` dictionary and the backup/restore bracket -/
namespace ChamVerif

theorem Dict.get_set_same (d : Dict) (k : Str) (v : Val) : (d.set k v).get k = some v := by
  induction d with
  | nil => simp [Dict.set, Dict.get]
  | cons e d ih =>
    obtain ⟨a, b⟩ := e
    simp only [Dict.set]
    by_cases h : (a == k) = true
    · simp [h, Dict.get]
    · simp [h, Dict.get, ih]

theorem Dict.get_set_other (d : Dict) (k k' : Str) (v : Val) (hne : k' ≠ k) : (d.set k v).get k' = d.get k' := by
  have hb : (k == k') = false := by simpa using (fun h => hne h.symm)
  induction d with
  | nil => simp [Dict.set, Dict.get, hb]
  | cons e d ih =>
    obtain ⟨a, b⟩ := e
    simp only [Dict.set]
    by_cases h : (a == k) = true
    · have hak : a = k := by simpa using h
      simp [h, Dict.get, hb, hak]
    · simp [h, Dict.get, ih]

/-- keys are unique in a dictionary -/
def Dict.WF : Dict → Prop
  | [] => True
  | (a, _) :: r => Dict.get r a = none ∧ Dict.WF r

theorem Dict.get_del_other (d : Dict) (k k' : Str) (hne : k' ≠ k) : (d.del k).get k' = d.get k' := by
  induction d with
  | nil => rfl
  | cons e d ih =>
    obtain ⟨a, b⟩ := e
    simp only [Dict.del]
    by_cases h : (a == k) = true
    · have hak : a = k := by simpa using h
      have : (a == k') = false := by rw [hak]; simpa using (fun h => hne h.symm)
      simp [h, Dict.get, this]
    · simp [h, Dict.get, ih]

theorem Dict.get_del_same (d : Dict) (k : Str) (hwf : d.WF) : (d.del k).get k = none := by
  induction d with
  | nil => rfl
  | cons e d ih =>
    obtain ⟨a, b⟩ := e
    simp only [Dict.del]
    by_cases h : (a == k) = true
    · have hak : a = k := by simpa using h
      simp only [h, if_true]
      rw [← hak]; exact hwf.1
    · simp [h, Dict.get, ih hwf.2]

theorem Dict.get_none_set_wf (d : Dict) (k : Str) (v : Val) (hwf : d.WF) : (d.set k v).WF := by
  induction d with
  | nil => simp [Dict.set, Dict.WF, Dict.get]
  | cons e d ih =>
    obtain ⟨a, b⟩ := e
    simp only [Dict.set]
    by_cases h : (a == k) = true
    · have hak : a = k := by simpa using h
      simp only [h, if_true, Dict.WF]
      exact ⟨by rw [← hak]; exact hwf.1, hwf.2⟩
    · simp only [h, Bool.false_eq_true, if_false, Dict.WF]
      refine ⟨?_, ih hwf.2⟩
      rw [Dict.get_set_other _ _ _ _ (by intro e; apply h; simp [e])]
      exact hwf.1

namespace ScopeStore
theorem own_setOwn_other' (s : ScopeStore) (i j : Nat) (d : Dict) (hne : j ≠ i) :
    (s.setOwn i d).own j = s.own j := by
  simp [setOwn, own, List.getD_eq_getElem?_getD, List.getElem?_set, Ne.symm hne]
theorem root_setOwn (s : ScopeStore) (i j : Nat) (d : Dict) : (s.setOwn i d).root j = s.root j := rfl
end ScopeStore

/-- the `_enter_assignment` … `_leave_assignment` bracket on one dictionary -/
def Dict.restore (d : Dict) (k : Str) (backup : Option Val) : Dict :=
  match backup with
  | some b => d.set k b
  | none => d.del k

/-- **C05 (bracket)**: whatever the body bound the name to, after the element the name is bound as
before — present *or absent* alike — and every other name is untouched by the bracket itself. -/
theorem C05_bracket_restores (d : Dict) (k : Str) (v : Val) (hwf : d.WF) :
    ((d.set k v).restore k (d.get k)).get k = d.get k := by
  unfold Dict.restore
  cases h : d.get k with
  | none => simp [Dict.get_del_same _ _ (Dict.get_none_set_wf d k v hwf)]
  | some b => simp [Dict.get_set_same]

theorem C05_bracket_frame (d : Dict) (k k' : Str) (v : Val) (hne : k' ≠ k) :
    ((d.set k v).restore k (d.get k)).get k' = d.get k' := by
  unfold Dict.restore
  cases d.get k with
  | none => rw [Dict.get_del_other _ _ _ hne, Dict.get_set_other _ _ _ _ hne]
  | some b => rw [Dict.get_set_other _ _ _ _ hne, Dict.get_set_other _ _ _ _ hne]

namespace ScopeStore

/-- well-formed store: one root entry per scope, every root handle denotes an existing scope -/
structure WF (s : ScopeStore) : Prop where
  len : s.rootOf.length = s.dicts.length
  valid : ∀ i r, s.root i = some r → r < s.dicts.length

theorem own_copy_new (s : ScopeStore) (i : Nat) : (s.copy i).1.own (s.copy i).2 = s.own i := by
  simp [copy, own, List.getD_eq_getElem?_getD]

theorem own_copy_old (s : ScopeStore) (i j : Nat) (hj : j < s.dicts.length) : (s.copy i).1.own j = s.own j := by
  simp [copy, own, List.getD_eq_getElem?_getD, List.getElem?_append_left hj]

theorem root_copy_new (s : ScopeStore) (i : Nat) (hwf : s.WF) :
    (s.copy i).1.root (s.copy i).2 = some (match s.root i with | some r => r | none => i) := by
  have h := hwf.len
  simp only [copy, root, List.getD_eq_getElem?_getD]
  rw [← h, List.getElem?_append_right (Nat.le_refl _)]
  simp
  rfl

theorem root_copy_old (s : ScopeStore) (i j : Nat) (hwf : s.WF) (hj : j < s.dicts.length) :
    (s.copy i).1.root j = s.root j := by
  have hj' : j < s.rootOf.length := by rw [hwf.len]; exact hj
  simp [copy, root, List.getD_eq_getElem?_getD, List.getElem?_append_left hj']

/-- **C05 (a copy sees what the original sees)**: the scope a macro / slot filler runs in starts
with exactly the caller's bindings (the caller being a root scope, as the render scope is). -/
theorem C05_copy_sees_same (s : ScopeStore) (i : Nat) (k : Str) (hwf : s.WF) (hi : i < s.dicts.length)
    (hroot : s.root i = none) :
    (s.copy i).1.get (s.copy i).2 k = s.get i k := by
  unfold get
  rw [own_copy_new, root_copy_new s i hwf, hroot]
  cases h : (s.own i).get k with
  | some v => rfl
  | none => simp only; rw [own_copy_old s i i hi, h]

/-- **C05 (locals of a copy never reach the original)** -/
theorem C05_copy_local_private (s : ScopeStore) (i : Nat) (k k' : Str) (v : Val) (hwf : s.WF)
    (hi : i < s.dicts.length) :
    ((s.copy i).1.setItem (s.copy i).2 k v).get i k' = s.get i k' := by
  have hne : i ≠ (s.copy i).2 := by simp [copy]; omega
  unfold get setItem
  rw [own_setOwn_other' _ _ _ _ hne]
  simp only [root_setOwn, own_copy_old s i i hi, root_copy_old s i i hwf hi]
  cases (s.own i).get k' with
  | some v => rfl
  | none =>
    cases hr : s.root i with
    | none => rfl
    | some r =>
      simp only
      have hrl := hwf.valid i r hr
      have hrj : r ≠ (s.copy i).2 := by simp [copy]; omega
      rw [own_setOwn_other' _ _ _ _ hrj, own_copy_old s i r hrl]

/-- **C05 (globals persist)**: a value set with `set_global` through a copy is what the (root)
original reads afterwards, unless it shadows the name itself. -/
theorem C05_global_through_copy (s : ScopeStore) (i : Nat) (k : Str) (v : Val) (hwf : s.WF)
    (hi : i < s.dicts.length) (hroot : s.root i = none) (hfresh : (s.own i).get k = none) :
    ((s.copy i).1.setGlobal (s.copy i).2 k v).get i k = some v := by
  unfold setGlobal
  rw [root_copy_new s i hwf, hroot]
  simp only
  unfold get
  have hi' : i < (s.copy i).1.dicts.length := by simp [copy]; omega
  have : ((s.copy i).1.setOwn i (((s.copy i).1.own i).set k v)).own i = ((s.copy i).1.own i).set k v := by
    simp [setOwn, own, List.getD_eq_getElem?_getD, hi']
  rw [this, Dict.get_set_same]

/-- non-vacuity: a concrete well-formed store (a render scope with one binding) -/
example : (ScopeStore.mk [[(lit "x", Val.int 1)]] [none]).WF :=
  ⟨rfl, by intro i r h; cases i <;> simp [root] at h⟩

end ScopeStore
end ChamVerif

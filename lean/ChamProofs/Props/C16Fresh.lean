import ChamProofs.Props.C16
/-! # C16 — following the file when time stamps do not move forward

`C16_follows` assumes that every change moves the modification time forward.  A roll-back that preserves time stamps, a
restored backup or a clock correction gives the file an *earlier* stamp.  `C16_follows_fresh`: it is enough that every
change gives the file a stamp it never had before in this history (earlier or later): the template still observes
exactly what the file holds.  (What `auto_reload` cannot see is a change that *re-uses* a stamp: `okOpH` excludes it, as
`okOp` excludes the bare `write`.) -/
namespace ChamVerif.Sys

/-- invariant relative to the stamps the file has had so far (`hist`) -/
def InvH (info : Nat → VersionInfo) (hist : List Nat) (w : World) : Prop :=
  w.file.mtime ∈ hist ∧ (∀ lr, w.tpl.lastRead = some lr → lr ∈ hist) ∧
  (w.tpl.cooked = true → w.tpl.lastRead = some w.file.mtime → Fresh info w.tpl w.file.version)

/-- admissible: every change gives the file a time stamp it has not had before -/
def okOpH (hist : List Nat) : Op → Prop
  | .write _ => False
  | .utime t => t ∉ hist
  | .modify _ t => t ∉ hist
  | _ => True

def histAfter (hist : List Nat) : Op → List Nat
  | .utime t => t :: hist
  | .modify _ t => t :: hist
  | _ => hist

def ValidH (q : RQuirks) (info : Nat → VersionInfo) : List Nat → World → List Op → Prop
  | _, _, [] => True
  | hist, w, op :: rest => okOpH hist op ∧ ValidH q info (histAfter hist op) (step q info w op).1 rest

theorem cookCheck_currentH (info : Nat → VersionInfo) (hist : List Nat) (w : World) (ha : w.tpl.autoReload = true)
    (hi : InvH info hist w) :
    let t := cookCheck fixed info w.file w.tpl
    Fresh info t w.file.version ∧ t.cooked = true ∧ t.lastRead = some w.file.mtime ∧ t.autoReload = true := by
  obtain ⟨_, _, h2⟩ := hi
  unfold cookCheck
  by_cases hl : w.tpl.lastRead = some w.file.mtime
  · by_cases hc : w.tpl.cooked = true
    · simp [ha, hl, hc, h2 hc hl]
    · simp [ha, hl, hc, cook, fixed, Fresh]
  · simp [ha, hl, cook, fixed, Fresh]

theorem inv_stepH (info : Nat → VersionInfo) (hist : List Nat) (w : World) (op : Op) (ha : w.tpl.autoReload = true)
    (hi : InvH info hist w) (hok : okOpH hist op) :
    InvH info (histAfter hist op) (step fixed info w op).1 ∧ (step fixed info w op).1.tpl.autoReload = true := by
  have hcc := cookCheck_currentH info hist w ha hi
  obtain ⟨hm, hlr, _⟩ := hi
  cases op with
  | write v => exact absurd hok (by simp [okOpH])
  | utime t =>
    simp only [okOpH] at hok
    refine ⟨⟨by simp [step, histAfter], ?_, ?_⟩, ha⟩
    · intro lr h; simp only [histAfter, List.mem_cons]; exact Or.inr (hlr lr h)
    · intro _ hl
      exact absurd (hlr t hl) hok
  | modify v t =>
    simp only [okOpH] at hok
    refine ⟨⟨by simp [step, histAfter], ?_, ?_⟩, ha⟩
    · intro lr h; simp only [histAfter, List.mem_cons]; exact Or.inr (hlr lr h)
    · intro _ hl
      exact absurd (hlr t hl) hok
  | render =>
    simp only [step, histAfter]
    exact ⟨⟨hm, fun lr h => by rw [hcc.2.2.1] at h; cases h; exact hm, fun _ _ => hcc.1⟩, hcc.2.2.2⟩
  | names =>
    simp only [step, histAfter]
    exact ⟨⟨hm, fun lr h => by rw [hcc.2.2.1] at h; cases h; exact hm, fun _ _ => hcc.1⟩, hcc.2.2.2⟩
  | use m =>
    simp only [step, histAfter]
    exact ⟨⟨hm, fun lr h => by rw [hcc.2.2.1] at h; cases h; exact hm, fun _ _ => hcc.1⟩, hcc.2.2.2⟩

theorem step_refinesH (info : Nat → VersionInfo) (hist : List Nat) (w : World) (op : Op) (ha : w.tpl.autoReload = true)
    (hi : InvH info hist w) :
    (step fixed info w op).2 = (specStep info w.file op).2 ∧ (step fixed info w op).1.file = (specStep info w.file op).1 := by
  obtain ⟨⟨hc, hat, hx⟩, _⟩ := cookCheck_currentH info hist w ha hi
  cases op with
  | write v => simp [step, specStep]
  | utime t => simp [step, specStep]
  | modify v t => simp [step, specStep]
  | render => simp only [step, specStep, hc, hx, Option.getD_some, and_self]
  | names => simp only [step, specStep, hat, List.map_map, and_true]; simp [Function.comp_def]
  | use m => simp only [step, specStep, hat, and_true]; rw [find_macro]

/-- **C16 (file templates follow their files, whichever way the time stamps move)**: for every history in which each change
gives the file a time stamp it has not had before — later *or earlier* — an auto-reloading template observes exactly what
the file holds at that moment -/
theorem C16_follows_fresh (info : Nat → VersionInfo) : ∀ (ops : List Op) (hist : List Nat) (w : World),
    w.tpl.autoReload = true → InvH info hist w → ValidH fixed info hist w ops →
    (run fixed info w ops).2 = specRun info w.file ops := by
  intro ops
  induction ops with
  | nil => intro hist w _ _ _; rfl
  | cons op rest ih =>
    intro hist w ha hi hv
    obtain ⟨hok, hrest⟩ := hv
    obtain ⟨hi', ha'⟩ := inv_stepH info hist w op ha hi hok
    obtain ⟨ho, hf⟩ := step_refinesH info hist w op ha hi
    simp only [run, specRun]
    rw [ho, ih _ _ ha' hi' hrest, hf]

/-- a freshly constructed template satisfies the invariant, with the file's current stamp as the only one seen so far -/
theorem invH_init (info : Nat → VersionInfo) (f : File) : InvH info [f.mtime] { file := f, tpl := { autoReload := true } } :=
  ⟨by simp, fun lr h => by simp at h, fun h => by simp at h⟩

/-- non-vacuity: a roll-back (stamp 10 → 12 → 5) is an admissible history -/
example (info : Nat → VersionInfo) :
    ValidH fixed info [10] { file := { version := 0, mtime := 10 }, tpl := { autoReload := true } }
      [.render, .modify 1 12, .render, .modify 2 5, .render] := by
  simp [ValidH, okOpH, histAfter, step]

end ChamVerif.Sys

import ChamVerif.Spec
import ChamProofs.Props.C01Spec
/-! # C04 — expressions in parts that are not rendered are never evaluated

Stated on the statement semantics (`Spec`), which the interpreter refines (`C01_element_semantics_full`): the
continuation `k` stands for *everything* the element would render below the statement — its tags, attributes, content,
children, with all their expressions.  When the guard is false, `k` is not run at all: the final state (the evaluation
log included) is the state right after the guard's own expression was evaluated. -/
namespace ChamVerif
open ChamVerif.Spec

/-- `tal:condition` false: nothing below it is evaluated -/
theorem C04_false_condition_skips (cfg : ECfg) (al : List (Str × Val)) (cl : Tok) (k : RM Unit) (s s1 : RState) (v : Val)
    (hv : liftX (fun env => evalCond cfg al env 16 (.e (.value cl))) s = .ok v s1) (hb : Val.truthy cfg.tab v = .ok false) :
    conditionOf cfg al (some cl) k s = .ok () s1 := by
  simp only [conditionOf, bind, hv, vTruthy, mLiftR, hb, pure]
  rfl

/-- `tal:condition` true: the element renders, from the state after the condition's evaluation -/
theorem C04_true_condition_renders (cfg : ECfg) (al : List (Str × Val)) (cl : Tok) (k : RM Unit) (s s1 : RState) (v : Val)
    (hv : liftX (fun env => evalCond cfg al env 16 (.e (.value cl))) s = .ok v s1) (hb : Val.truthy cfg.tab v = .ok true) :
    conditionOf cfg al (some cl) k s = k s1 := by
  simp only [conditionOf, bind, hv, vTruthy, mLiftR, hb, pure]
  rfl

/-- a `tal:case` that does not match (or whose switch is already closed): nothing below it is evaluated, and the switch stays
as it was -/
theorem C04_unmatched_case_skips (cfg : ECfg) (al : List (Str × Val)) (sw : Nat) (cl : Tok) (k : List (Str × Val) → RM Unit)
    (s s1 : RState) (v : Val)
    (hv : liftX (fun env => evalCond cfg ((lit "default", Val.dflt) :: al) env 16 (caseCond sw cl)) s = .ok v s1)
    (hb : Val.truthy cfg.tab v = .ok false) :
    caseOf cfg al (some (sw, cl)) k s = .ok () s1 := by
  simp only [caseOf, bind, hv, vTruthy, mLiftR, hb, pure]
  rfl

/-- a matching `tal:case` closes the switch *before* the element renders (so a failure of the element, handled by its own
`tal:on-error`, does not let a later case render) -/
theorem C04_matching_case_closes_first (cfg : ECfg) (al : List (Str × Val)) (sw : Nat) (cl : Tok) (k : List (Str × Val) → RM Unit)
    (s s1 : RState) (v : Val)
    (hv : liftX (fun env => evalCond cfg ((lit "default", Val.dflt) :: al) env 16 (caseCond sw cl)) s = .ok v s1)
    (hb : Val.truthy cfg.tab v = .ok true) :
    caseOf cfg al (some (sw, cl)) k s =
      (setCache sw (Val.excClass "<CANCEL>") >>= fun _ => k ((lit "default", Val.dflt) :: al)) s1 := by
  simp only [caseOf, bind, hv, vTruthy, mLiftR, hb, pure]
  rfl

/-- `tal:replace` / `tal:content` with a value other than `default`: the original (the element, resp. its children) is
not evaluated at all; the expression itself was evaluated once and its cached value is what is tested and inserted -/
theorem C04_replaced_original_not_evaluated (cfg : ECfg) (al : List (Str × Val)) (st : Nat × Tok × Bool × Bool)
    (orig : List (Str × Val) → RM Unit) (s s1 s2 s3 : RState) (v isd : Val)
    (hv : enVal cfg ((lit "default", Val.dflt) :: al) (.value st.2.1) s = .ok v s1)
    (hc : setCache st.1 v s1 = .ok () s2)
    (hd : liftX (fun env => evalCond cfg ((lit "default", Val.dflt) :: al) env 16 (.e (.binop (.ref st.1) .is_ .marker))) s2 = .ok isd s3)
    (hb : Val.truthy cfg.tab isd = .ok false) :
    insertOr cfg al st orig s = emitValue cfg ((lit "default", Val.dflt) :: al) (.ref st.1) (!st.2.2.1) st.2.2.2 s3 := by
  simp only [insertOr, bind, hv, hc, hd, vTruthy, mLiftR, hb, pure]
  rfl

end ChamVerif

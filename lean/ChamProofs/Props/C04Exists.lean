import ChamVerif.Eval
/-! # C04 — `exists:` turns exactly its own exception classes into "no"

`ExistsExpr.exceptions` (regenerated: `Gen.existsExceptions` = AttributeError, LookupError, TypeError, NameError) is a
different tuple from the one a pipe moves on for (`Gen.talesExceptions`, which has `ValueError` too).
`C04_exists_*`: an operand that evaluates gives 1; one that raises a class of the `exists:` tuple gives 0; anything else
propagates unchanged — in particular a `ValueError`, which a pipe would have swallowed. -/
namespace ChamVerif

theorem C04_exists_value (cfg : ECfg) (al : List (Str × Val)) (env : Env) (f : Nat) (e : TExpr) (esc : Esc) (d : Option Str)
    (x x' : XState) (v : Val) (h : evalT cfg al env f e esc d x = .ok v x') :
    evalT cfg al env (f + 1) (.exists_ e) esc d x = .ok (.int 1) x' := by
  simp only [evalT, h]

theorem C04_exists_caught (cfg : ECfg) (al : List (Str × Val)) (env : Env) (f : Nat) (e : TExpr) (esc : Esc) (d : Option Str)
    (x x' : XState) (ex : Exc) (h : evalT cfg al env f e esc d x = .raised ex x')
    (hc : isSubclass cfg ex.cls cfg.existsExc = true) :
    evalT cfg al env (f + 1) (.exists_ e) esc d x = .ok (.int 0) x' := by
  simp only [evalT, h, hc, if_true]

theorem C04_exists_propagates (cfg : ECfg) (al : List (Str × Val)) (env : Env) (f : Nat) (e : TExpr) (esc : Esc) (d : Option Str)
    (x x' : XState) (ex : Exc) (h : evalT cfg al env f e esc d x = .raised ex x')
    (hc : isSubclass cfg ex.cls cfg.existsExc = false) :
    evalT cfg al env (f + 1) (.exists_ e) esc d x = .raised ex x' := by
  simp only [evalT, h, hc, Bool.false_eq_true, if_false]

/-- the tie: the two tuples as regenerated from the live classes — `ValueError` is in the pipe's, not in `exists:`'s -/
theorem C04_exists_tuple_tie :
    Gen.existsExceptions = ["AttributeError", "LookupError", "TypeError", "NameError"] ∧
    Gen.talesExceptions.contains "ValueError" = true ∧ Gen.existsExceptions.contains "ValueError" = false := by decide

end ChamVerif

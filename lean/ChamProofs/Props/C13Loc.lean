import ChamProofs.Props.C13
import ChamProofs.Props.C12
import ChamProofs.Props.C11Loc
/-! # C13 — `error.lineno` / `error.offset` identify the failing expression's offset exactly -/
namespace ChamVerif
open ChamVerif.C11Loc

/-- **C13 (the position `error` reports is the expression's)**: when the handler of `tal:on-error` runs after the expression at
offset `p` of the rendered template failed (`__token` set), the `error` variable the fallback reads holds the exception's class
and value and a (line, column) pair from which `p` is recovered: the start of that line plus the column, no line feed in between -/
theorem C13_error_position_exact (cfg : ECfg) (key depth saved : Nat) (ex : Exc) (s' s2 : RState) (p len : Nat)
    (hl : cfg.libs = []) (ht : s'.x.token = some (p, len)) (hp : p ≤ cfg.src.length)
    (h : onErrorHandle cfg key depth saved ex s' = some s2) :
    ∃ line col, s2.env.get (lit "error") = some (Val.errorInfo ex.cls ex.msg (some (line, col))) ∧
      lineStart cfg.src (line - 1) + col = p ∧ 10 ∉ (cfg.src.take p).drop (lineStart cfg.src (line - 1)) := by
  unfold onErrorHandle at h
  simp only [Option.some.injEq] at h
  subst h
  refine ⟨(Tok.location cfg.src { str := [], pos := p }).1, (Tok.location cfg.src { str := [], pos := p }).2, ?_, ?_⟩
  · simp [Env.get, lookupAssoc, ht, locate_main cfg p hl]
  · exact C11_location_exact cfg.src { str := [], pos := p } hp

end ChamVerif

import ChamVerif.Eval
/-! # C10 — a value that is not a string, a number or an `__html__` object is offered to the translation function

`offerCall` is the call `__convert` / `__quote` make before a value is converted to text.  The theorems state the last
clause of C10 on the model: exactly the values of class `other` (no `None`, marker, bytes, `str`, exact `int`, `__html__`
object) are offered, exactly once per insertion, with the domain, context and target language of the enclosing frame;
everything else is inserted without any call. -/
namespace ChamVerif

/-- is the value class one that is offered -/
def QIn.isOther : QIn → Bool
  | .other _ _ => true
  | _ => false

/-- **C10 (offered)**: a value of class `other` is offered: one call, with its string form and the frame's settings -/
theorem C10_other_offered (cfg : ECfg) (env : Env) (v : Val) (s : Str) (tr : Option (Option Str)) (x : XState)
    (hq : toQIn cfg v = .ok (.other s tr)) :
    offerCall cfg env v x = .ok () { x with tlog := x.tlog.push (offerOf env.topFrame s) } := by
  simp only [offerCall, hq]

/-- **C10 (nothing else is offered)**: `None`, the marker, bytes, strings, numbers and `__html__` objects are inserted
without a call -/
theorem C10_plain_not_offered (cfg : ECfg) (env : Env) (v : Val) (q : QIn) (x : XState)
    (hq : toQIn cfg v = .ok q) (hno : q.isOther = false) : offerCall cfg env v x = .ok () x := by
  simp only [offerCall, hq]
  cases q <;> first | rfl | (simp [QIn.isOther] at hno)

/-- the offer never fails and changes nothing but the call log -/
theorem offerCall_ok (cfg : ECfg) (env : Env) (v : Val) (x : XState) :
    ∃ x', offerCall cfg env v x = .ok () x' ∧ x'.log = x.log ∧ x'.token = x.token := by
  unfold offerCall
  split
  · exact ⟨_, rfl, rfl, rfl⟩
  · exact ⟨_, rfl, rfl, rfl⟩

/-- **C10 (before the conversion, once)**: converting a value of class `other` for insertion at any site logs exactly
one call — the offer — and yields what `__quote`/`__convert` make of what the translation function returned -/
theorem C10_conversion_offers_once (cfg : ECfg) (env : Env) (esc : Esc) (d : Option Str) (v : Val) (s : Str)
    (tr : Option (Option Str)) (x : XState) (hq : toQIn cfg v = .ok (.other s tr)) (hesc : esc ≠ .emptyQ) :
    ∃ t, convertText cfg esc d v = .ok t ∧
      convertTextX cfg env esc d v x = .ok t { x with tlog := x.tlog.push (offerOf env.topFrame s) } := by
  have he : (esc == Esc.emptyQ) = false := by cases esc <;> first | rfl | exact absurd rfl hesc
  have hc : ∃ t, convertText cfg esc d v = .ok t := by
    simp only [convertText, he, Bool.false_eq_true, if_false, hq, bind, pure]
    cases escQ esc with
    | none => exact ⟨_, rfl⟩
    | some p => exact ⟨_, rfl⟩
  obtain ⟨t, ht⟩ := hc
  refine ⟨t, ht, ?_⟩
  simp only [convertTextX, he, Bool.false_eq_true, if_false, bind, C10_other_offered cfg env v s tr x hq, xLiftR, ht]

/-- … and a plain value is converted without any call -/
theorem C10_conversion_plain (cfg : ECfg) (env : Env) (esc : Esc) (d : Option Str) (v : Val) (q : QIn) (x : XState)
    (hq : toQIn cfg v = .ok q) (hno : q.isOther = false) (hesc : esc ≠ .emptyQ) :
    ∃ t, convertText cfg esc d v = .ok t ∧ convertTextX cfg env esc d v x = .ok t x := by
  have he : (esc == Esc.emptyQ) = false := by cases esc <;> first | rfl | exact absurd rfl hesc
  have hc : ∃ t, convertText cfg esc d v = .ok t := by
    simp only [convertText, he, Bool.false_eq_true, if_false, hq, bind, pure]
    cases escQ esc with
    | none => cases q <;> exact ⟨_, rfl⟩
    | some p => exact ⟨_, rfl⟩
  obtain ⟨t, ht⟩ := hc
  refine ⟨t, ht, ?_⟩
  simp only [convertTextX, he, Bool.false_eq_true, if_false, bind, C10_plain_not_offered cfg env v q x hq hno, xLiftR, ht]

/-- a false value of a boolean attribute is dropped before any conversion: not offered -/
theorem C10_false_boolean_not_offered (cfg : ECfg) (env : Env) (esc : Esc) (d : Option Str) (v : Val) (x : XState)
    (hf : Val.truthy cfg.tab v = .ok false) : convPartX cfg env esc d false v x = .ok none x := by
  simp only [convPartX, Bool.false_eq_true, if_false, bind, xLiftR, hf, pure]

/-- non-vacuity: `True` is of class `other` (so `${True}` is offered: `type(True) is int` is false), a string is not -/
example (cfg : ECfg) : ∃ s tr, toQIn cfg (.bool true) = .ok (.other s tr) := ⟨_, _, rfl⟩
example (cfg : ECfg) : toQIn cfg (.str [97]) = .ok (.str [97]) ∧ (QIn.str [97]).isOther = false := ⟨rfl, rfl⟩

end ChamVerif

import ChamProofs.Props.C10
/-! # C10 — an element whose dynamic content is itself the message

`tal:content` / `tal:replace` together with `i18n:translate=""`: the value of the expression is the message id.
`C10_dynamic_text_once`: a string value is offered once, as a message of the template (not as an inserted value), with
the settings in force, and what the translation function answers is inserted (escaped for the site).
`C10_dynamic_number_once`: a number is handed over as it is — once; it comes back and is inserted as a number, and a
number is not offered a second time by the conversion.  (The round-10 C10 seed converted the value to text *before*
the element's call: an inserted message object was then translated twice.) -/
namespace ChamVerif

theorem C10_dynamic_text_once (cfg : ECfg) (al : List (Str × Val)) (f : Nat) (e : EN) (esc : Bool) (t top : Str) (rest : List Str)
    (s s1 : RState) (hv : enVal cfg al e s = .ok (.str t) s1) (hs : s1.streams = top :: rest) :
    ∃ s2, eval cfg al (f + 1) (.content e esc true) s = .ok () s2 ∧
      s2.x.tlog = s1.x.tlog.push { msgid := t, mapping := none, dflt := none, domain := s1.env.topFrame.domain,
                                   context := s1.env.topFrame.context, target := tTarget s1 } ∧
      s2.streams = (top ++ (if esc then quoteStr Site.content.q Site.content.qe (simpleTranslate cfg.tc.rx t none none)
                            else simpleTranslate cfg.tc.rx t none none)) :: rest := by
  simp only [eval, bind, hv, if_true, liftX, callTranslate, pure, offerCall, toQIn, mLiftR]
  cases esc <;>
    simp only [quoteVal, convertVal, emit, mModify, hs, Bool.false_eq_true, if_false, if_true] <;>
    exact ⟨_, rfl, (by simp only [tTarget]; congr), rfl⟩

theorem C10_dynamic_number_once (cfg : ECfg) (al : List (Str × Val)) (f : Nat) (e : EN) (esc : Bool) (i : Int) (top : Str) (rest : List Str)
    (s s1 : RState) (hv : enVal cfg al e s = .ok (.int i) s1) (hs : s1.streams = top :: rest) :
    ∃ s2, eval cfg al (f + 1) (.content e esc true) s = .ok () s2 ∧
      s2.x.tlog = s1.x.tlog.push (offerOf s1.env.topFrame (intToStr i)) ∧
      s2.streams = (top ++ intToStr i) :: rest := by
  have hstr : Val.strOf cfg.tab (.int i) = .ok (intToStr i) := by simp [Val.strOf, pure]
  simp only [eval, bind, hv, if_true, liftX, pure, offerCall, toQIn, mLiftR, hstr]
  cases esc <;>
    simp only [quoteVal, convertVal, emit, mModify, hs, Bool.false_eq_true, if_false, if_true] <;>
    exact ⟨_, rfl, rfl, rfl⟩

end ChamVerif

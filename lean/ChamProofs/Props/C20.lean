import ChamVerif.Pipeline
/-! # C20 — text-mode templates copy their source verbatim except for `${…}` and `$$` -/
namespace ChamVerif

/-- **C20 (verbatim)**: a text-mode source without `${` compiles to a single text node holding the
source with `$$` collapsed — `<`, `&`, tags and anything resembling template attributes are ordinary
characters (the behaviour of /repo after the D-20a fix: `textModeIdentify = false`). -/
theorem C20_build_verbatim (c : BCfg) (src : Str) (hq : c.q.textModeIdentify = false)
    (hi : c.implicitI18nTranslate = false) (hn : hasInterp src = false) :
    buildProgram c true src = .ok (.seq [.text (undoubleDollar src)], []) := by
  unfold buildProgram
  simp only [if_true, hq, Bool.not_false, Bool.and_self, iterText, List.map_cons, List.map_nil, bind, Except.bind, pure,
    Except.pure]
  simp [visitItems, visitItem, visitText, hn, hi, bind, bModify, bGet, pure, Except.bind, Except.pure]

/-- … and rendering that node emits exactly that text: no escaping, nothing evaluated -/
theorem C20_eval_text (cfg : ECfg) (al : List (Str × Val)) (s : Str) (f : Nat) (st : RState) (top : Str) (rest : List Str)
    (hs : st.streams = top :: rest) :
    eval cfg al (f + 3) (.seq [.text s]) st = .ok () { st with streams := (top ++ s) :: rest } := by
  simp [eval, evalList, emit, mModify, hs, bind, pure]

end ChamVerif

namespace ChamVerif
/-- the text a text-mode template is compiled from: its source, with CR / CRLF normalised to LF unless it begins with an XML
declaration (the content type is sniffed from the source whatever the template class, and `text/xml` keeps its line ends) -/
def textBody (r : RenderReq) : Str := if r.xmlMode.getD (isXmlDoc r.src) then r.src else normalizeNewlines r.src

/-- **C20 on the whole render function**: a text-mode template whose source holds no `${` renders as its source
(`textBody`: newlines normalised unless it begins with an XML declaration; `$$` → `$`): whatever `<`, `&`, quotes, tag-like or
`tal:`-like text it contains. -/
theorem C20_render_verbatim (r : RenderReq) (ht : r.textMode = true) (hq : r.bcfg.q.textModeIdentify = false)
    (hi : r.bcfg.implicitI18nTranslate = false) (hn : hasInterp (textBody r) = false) (hl : r.libs = []) :
    render r = .out (undoubleDollar (textBody r)) #[] #[] 0 := by
  unfold render
  unfold textBody at hn ⊢
  simp only [ht, Bool.not_true, Bool.and_false, if_false, Bool.false_eq_true]
  generalize (if r.xmlMode.getD (isXmlDoc r.src) = true then r.src else normalizeNewlines r.src) = b at hn ⊢
  rw [C20_build_verbatim (c := _) (src := _) (hq := by simpa using hq) (hi := by simpa using hi) (hn := hn)]
  simp only []
  have hf : 8 * b.length + 64 = (8 * b.length + 61) + 3 := by omega
  rw [hf]
  have hc : ∀ tc strict f s, compileCheck tc strict (f + 3) [] (.seq [.text s]) = .ok () := by
    intro tc strict f s
    simp [compileCheck, checkNode, checkNodes, bind, pure, Except.bind, Except.pure]
  rw [hc]
  simp only [hl, List.foldlM_nil, pure, Except.pure]
  rw [C20_eval_text (top := []) (rest := []) (hs := rfl)]
  simp
end ChamVerif

import ChamVerif.Spec
import ChamProofs.Fuel
/-! # C01 — the interpreter renders an element's node as the statement semantics prescribes

`Spec.specElement` (in `ChamVerif/Spec.lean`) is the reference: definitions first, then the guards, then repetition,
then replacement, tag omission with the attributes, and content.  `C01_element_semantics`: for every element of the TAL
fragment, the node the program builder assembles from the element's parsed statements (`elementPost`), evaluated by
the interpreter with whatever fuel, gives the verdict — output, scope, logs, exception — that `specElement` gives. -/
namespace ChamVerif
open ChamVerif.Fuel ChamVerif.Spec

/-! ## `RM` is a lawful monad (as far as needed) -/

theorem rm_bind_assoc {α β γ} (m : RM α) (f : α → RM β) (g : β → RM γ) :
    (m >>= f) >>= g = m >>= fun a => f a >>= g := by
  funext s
  simp only [bind]
  cases m s <;> rfl

theorem rm_pure_bind {α β} (a : α) (f : α → RM β) : (pure a : RM α) >>= f = f a := rfl

theorem rm_bind_pure_unit (m : RM Unit) : (m >>= fun _ => (pure () : RM Unit)) = m := by
  funext s
  simp only [bind]
  cases m s <;> rfl

theorem forM_one {α} (g : α → RM Unit) (a : α) : [a].forM g = g a := by
  show (g a >>= fun _ => pure ()) = g a
  exact rm_bind_pure_unit _

/-- `k` is what the fuel-indexed computation `m` computes, whenever it has fuel enough to compute anything -/
def RefF (F : Nat) (m : Nat → RM Unit) (k : RM Unit) : Prop := ∀ G, G ≤ F → Le (m G) k

theorem le_unsupported {α} (w : String) (k : RM α) : Le (mUnsupported w : RM α) k :=
  ⟨fun s hs => absurd rfl (hs w)⟩

theorem refF_mono {F F' : Nat} {m : Nat → RM Unit} {k : RM Unit} (h : RefF F m k) (hF : F' ≤ F) : RefF F' m k :=
  fun G hG => h G (Nat.le_trans hG hF)

/-- evaluating a node with less fuel than `F` refines evaluating it with `F` -/
theorem refF_eval (cfg : ECfg) (al : List (Str × Val)) (F : Nat) (n : Node) :
    RefF F (fun G => eval cfg al G n) (eval cfg al F n) :=
  fun G hG => eval_fuel_le cfg al n G F hG

theorem refF_evalList (cfg : ECfg) (al : List (Str × Val)) (F : Nat) (ns : List Node) :
    RefF F (fun G => evalList cfg al G ns) (evalList cfg al F ns) :=
  fun G hG => evalList_fuel_le cfg al ns G F hG

/-! ## one layer of the node tree at a time -/

section layers
variable (cfg : ECfg)

theorem refF_seq (al : List (Str × Val)) (F : Nat) (ns : List Node) (k : RM Unit)
    (h : RefF F (fun G => evalList cfg al G ns) k) : RefF F (fun G => eval cfg al G (.seq ns)) k := by
  intro G hG
  cases G with
  | zero => simp only [eval]; exact le_unsupported _ _
  | succ G => simp only [eval]; exact h G (by omega)

theorem refF_content (al : List (Str × Val)) (F : Nat) (e : EN) (esc tr : Bool) :
    RefF F (fun G => eval cfg al G (.content e esc tr)) (emitValue cfg al e esc tr) := by
  intro G hG
  cases G with
  | zero => simp only [eval]; exact le_unsupported _ _
  | succ G => simp only [eval, emitValue]; exact le_refl _

theorem refF_cache_one (al : List (Str × Val)) (F : Nat) (id : Nat) (e : EN) (n : Node) (k : RM Unit)
    (h : RefF F (fun G => eval cfg al G n) k) :
    RefF F (fun G => eval cfg al G (.cache [(id, e)] n)) (do let v ← enVal cfg al e; setCache id v; k) := by
  intro G hG
  cases G with
  | zero => simp only [eval]; exact le_unsupported _ _
  | succ G =>
    simp only [eval, forM_one, setCache, rm_bind_assoc]
    have := h G (by omega)
    le

theorem refF_cancel_one (al : List (Str × Val)) (F : Nat) (id : Nat) (n : Node) (k : RM Unit)
    (h : RefF F (fun G => eval cfg al G n) k) :
    RefF F (fun G => eval cfg al G (.cancel [id] n)) (do setCache id (Val.excClass "<CANCEL>"); k) := by
  intro G hG
  cases G with
  | zero => simp only [eval]; exact le_unsupported _ _
  | succ G =>
    simp only [eval, forM_one, setCache]
    have := h G (by omega)
    le

theorem refF_condition (al : List (Str × Val)) (F : Nat) (c : CondE) (n : Node) (o : Option Node) (k ko : RM Unit)
    (h : RefF F (fun G => eval cfg al G n) k)
    (ho : match o with | some on => RefF F (fun G => eval cfg al G on) ko | none => ko = pure ()) :
    RefF F (fun G => eval cfg al G (.condition c n o))
      (do let v ← liftX (fun env => evalCond cfg al env 16 c); let b ← vTruthy cfg v; if b then k else ko) := by
  intro G hG
  cases G with
  | zero => simp only [eval]; exact le_unsupported _ _
  | succ G =>
    simp only [eval]
    have := h G (by omega)
    cases o with
    | none => subst ho; le
    | some on => have := ho G (by omega); le

theorem refF_element (al : List (Str × Val)) (F : Nat) (st ct : Node) (en : Option Node) (kst kct ken : RM Unit)
    (hst : RefF F (fun G => eval cfg al G st) kst) (hct : RefF F (fun G => eval cfg al G ct) kct)
    (hen : match en with | some e => RefF F (fun G => eval cfg al G e) ken | none => ken = pure ()) :
    RefF F (fun G => eval cfg al G (.element st en ct)) (do kst; kct; ken) := by
  intro G hG
  cases G with
  | zero => simp only [eval]; exact le_unsupported _ _
  | succ G =>
    simp only [eval]
    have := hst G (by omega)
    have := hct G (by omega)
    cases en with
    | none => subst hen; le
    | some e => have := hen G (by omega); le

/-- `define [alias name e] n`: the alias is in force while `n` renders -/
theorem refF_define_alias (al : List (Str × Val)) (F : Nat) (name : Str) (e : EN) (n : Node) (k : Val → RM Unit)
    (h : ∀ v, RefF F (fun G => eval cfg ((name, v) :: al) G n) (k v)) :
    RefF F (fun G => eval cfg al G (.define [.alias name e] n)) (do let v ← enVal cfg al e; k v) := by
  intro G hG
  match G with
  | 0 => simp only [eval]; exact le_unsupported _ _
  | 1 => simp only [eval, evalDefine]; exact le_unsupported _ _
  | 2 =>
    simp only [eval, evalDefine]
    exact le_bind_right _ _ _ (fun v => le_unsupported _ _)
  | G + 3 =>
    have hnil : ∀ g : (Str × Option Val) → RM Unit, ([] : List (Str × Option Val)).forM g = pure () := fun _ => rfl
    simp only [eval, evalDefine, restore, hnil, rm_bind_pure_unit]
    exact le_bind_right _ _ _ (fun v => h v G (by omega))

theorem enVal_marker_eq (al : List (Str × Val)) : enVal cfg al .marker = (pure Val.dflt : RM Val) := by
  funext s
  simp [enVal, liftX, evalEN, pure]

/-- `_make_content_node` with a default: `insertOr` -/
theorem refF_insertOr (al : List (Str × Val)) (F : Nat) (st : Nat × Tok × Bool × Bool) (d : Node)
    (orig : List (Str × Val) → RM Unit)
    (h : ∀ al', RefF F (fun G => eval cfg al' G d) (orig al')) :
    RefF F (fun G => eval cfg al G (makeContentNode st.1 st.2.1 (some d) st.2.2.1 st.2.2.2)) (insertOr cfg al st orig) := by
  unfold makeContentNode insertOr
  have key := refF_define_alias cfg al F (lit "default") .marker
    (.cache [(st.1, .value st.2.1)]
      (.condition (.e (.binop (.ref st.1) .is_ .marker)) d (some (.content (.ref st.1) (!st.2.2.1) st.2.2.2))))
    (fun v => do
      let x ← enVal cfg ((lit "default", v) :: al) (.value st.2.1)
      setCache st.1 x
      let isDefault ← liftX (fun env => evalCond cfg ((lit "default", v) :: al) env 16 (.e (.binop (.ref st.1) .is_ .marker)))
      let b ← vTruthy cfg isDefault
      if b then orig ((lit "default", v) :: al) else emitValue cfg ((lit "default", v) :: al) (.ref st.1) (!st.2.2.1) st.2.2.2)
    (fun v => refF_cache_one cfg _ F _ _ _ _
      (refF_condition cfg _ F _ _ _ _ _ (h _) (refF_content cfg _ F _ _ _)))
  rw [enVal_marker_eq, rm_pure_bind] at key
  exact key

/-- the children, or what `tal:content` puts in their place -/
theorem refF_contentOf (al : List (Str × Val)) (F : Nat) (ip : InnerSpec) (ht : ip.translate = none) (b : Node)
    (bodyK : List (Str × Val) → RM Unit) (h : ∀ al', RefF F (fun G => eval cfg al' G b) (bodyK al')) :
    RefF F (fun G => eval cfg al G (ip.contentNode b)) (contentOf cfg ip bodyK al) := by
  unfold InnerSpec.contentNode contentOf
  rw [ht]
  cases hc : ip.content with
  | none => exact h al
  | some c =>
    obtain ⟨id, expr, st, tr⟩ := c
    exact refF_insertOr cfg al F (id, expr, st, tr) b bodyK h

/-- the tags around it, unless omitted -/
theorem refF_taggedOf (al : List (Str × Val)) (F : Nat) (ip : InnerSpec) (ht : ip.translate = none) (b : Node)
    (bodyK : List (Str × Val) → RM Unit) (h : ∀ al', RefF F (fun G => eval cfg al' G b) (bodyK al')) :
    RefF F (fun G => eval cfg al G (ip.tagged b)) (taggedOf cfg F ip bodyK al) := by
  unfold InnerSpec.tagged taggedOf
  have hct := refF_contentOf cfg al F ip ht b bodyK h
  by_cases ho : ip.omitAlways = true
  · simp only [ho, if_true]; exact hct
  · simp only [ho, Bool.false_eq_true, if_false]
    cases hoe : ip.omitExpr with
    | none =>
      simp only
      refine refF_element cfg al F _ _ _ _ _ _ (refF_eval cfg al F _) hct ?_
      cases ip.endTag with
      | none => rfl
      | some e => exact refF_eval cfg al F e
    | some oc =>
      obtain ⟨oid, cl⟩ := oc
      simp only
      cases hen : ip.endTag with
      | none =>
        have key := refF_cache_one cfg al F oid (.negate (.value cl)) _ _
          (refF_element cfg al F (.condition (.e (.ref oid)) ip.startTag none) (ip.contentNode b) none _ _ (pure ())
            (refF_condition cfg al F _ _ none _ (pure ()) (refF_eval cfg al F ip.startTag) rfl) hct rfl)
        intro G hG
        have := key G hG
        simp only [rm_bind_assoc, Option.map_none] at this ⊢
        exact this
      | some e =>
        have key := refF_cache_one cfg al F oid (.negate (.value cl)) _ _
          (refF_element cfg al F (.condition (.e (.ref oid)) ip.startTag none) (ip.contentNode b)
            (some (Node.condition (.e (.ref oid)) e none)) _ _ _
            (refF_condition cfg al F _ _ none _ (pure ()) (refF_eval cfg al F ip.startTag) rfl) hct
            (refF_condition cfg al F _ _ none _ (pure ()) (refF_eval cfg al F e) rfl))
        intro G hG
        have := key G hG
        simp only [rm_bind_assoc, Option.map_some] at this ⊢
        exact this

/-- `tal:replace`, or the element -/
theorem refF_innerOf (al : List (Str × Val)) (F : Nat) (ip : InnerSpec) (ht : ip.translate = none) (b : Node)
    (bodyK : List (Str × Val) → RM Unit) (h : ∀ al', RefF F (fun G => eval cfg al' G b) (bodyK al')) :
    RefF F (fun G => eval cfg al G (ip.node b)) (innerOf cfg F ip bodyK al) := by
  unfold InnerSpec.node innerOf
  cases hr : ip.replace with
  | none => exact refF_taggedOf cfg al F ip ht b bodyK h
  | some r =>
    obtain ⟨id, expr, st, tr⟩ := r
    exact refF_insertOr cfg al F (id, expr, st, tr) (ip.tagged b) (taggedOf cfg F ip bodyK)
      (fun al' => refF_taggedOf cfg al' F ip ht b bodyK h)

/-! ## the statement wrappers -/

def optSwitch (sw : Option (Nat × Tok)) (n : Node) : Node :=
  match sw with | none => n | some (sid, cl) => .cache [(sid, .value cl)] n
def optRepeat (rp : Option (Nat × DefineSpec × Str)) (n : Node) : Node :=
  match rp with | none => n | some (rid, d, ws) => .repeat_ rid d.names (.value d.expr) (d.ctx == .local_) ws n
def optCond (c : Option Tok) (n : Node) : Node :=
  match c with | none => n | some cl => .condition (.e (.value cl)) n none
def optCase (cs : Option (Nat × Tok)) (n : Node) : Node :=
  match cs with | none => n | some (sw, cl) => caseNode sw cl n

theorem refF_switchOf (al : List (Str × Val)) (F : Nat) (sw : Option (Nat × Tok)) (n : Node) (k : RM Unit)
    (h : RefF F (fun G => eval cfg al G n) k) :
    RefF F (fun G => eval cfg al G (optSwitch sw n)) (switchOf cfg al sw k) := by
  unfold optSwitch switchOf
  cases sw with
  | none => exact h
  | some x => obtain ⟨sid, cl⟩ := x; exact refF_cache_one cfg al F sid (.value cl) n k h

theorem refF_conditionOf (al : List (Str × Val)) (F : Nat) (c : Option Tok) (n : Node) (k : RM Unit)
    (h : RefF F (fun G => eval cfg al G n) k) :
    RefF F (fun G => eval cfg al G (optCond c n)) (conditionOf cfg al c k) := by
  unfold optCond conditionOf
  cases c with
  | none => exact h
  | some cl => exact refF_condition cfg al F _ n none k (pure ()) h rfl

theorem refF_caseOf (al : List (Str × Val)) (F : Nat) (cs : Option (Nat × Tok)) (n : Node) (k : List (Str × Val) → RM Unit)
    (h : ∀ al', RefF F (fun G => eval cfg al' G n) (k al')) :
    RefF F (fun G => eval cfg al G (optCase cs n)) (caseOf cfg al cs k) := by
  unfold optCase caseOf
  cases cs with
  | none => exact h al
  | some x =>
    obtain ⟨sw, cl⟩ := x
    unfold caseNode
    have key := refF_define_alias cfg al F (lit "default") .marker
      (.condition (caseCond sw cl) (.cancel [sw] n) none)
      (fun v => do
        let c ← liftX (fun env => evalCond cfg ((lit "default", v) :: al) env 16 (caseCond sw cl))
        let b ← vTruthy cfg c
        if b then (do setCache sw (Val.excClass "<CANCEL>"); k ((lit "default", v) :: al)) else pure ())
      (fun v => refF_condition cfg _ F _ _ none _ (pure ()) (refF_cancel_one cfg _ F sw n _ (h _)) rfl)
    rw [enVal_marker_eq, rm_pure_bind] at key
    exact key

theorem refF_loop (al : List (Str × Val)) (F : Nat) (key : Str) (names : List Tok) (loc : Bool) (ws : Str) (n : Node)
    (k : RM Unit) (h : RefF F (fun G => eval cfg al G n) k) :
    ∀ (items : List Val) (rem : Nat),
      RefF F (fun G => evalRepeat cfg al G key names loc ws n items rem) (loopOf key names loc ws k items rem) := by
  intro items
  induction items with
  | nil =>
    intro rem G hG
    cases G with
    | zero => simp only [evalRepeat]; exact le_unsupported _ _
    | succ G => simp only [evalRepeat, loopOf]; exact le_refl _
  | cons item rest ih =>
    intro rem G hG
    cases G with
    | zero => simp only [evalRepeat]; exact le_unsupported _ _
    | succ G =>
      simp only [evalRepeat, loopOf]
      have := h G (by omega)
      have := ih (rem - 1) G (by omega)
      rcases names with _ | ⟨nm, _ | ⟨nm2, more⟩⟩ <;> (try simp only []) <;> le
      all_goals first | exact le_unsupported _ _ | (exfalso; simp_all; done)

theorem refF_repeatOf (al : List (Str × Val)) (F : Nat) (rp : Option (Nat × DefineSpec × Str)) (n : Node) (k : RM Unit)
    (h : RefF F (fun G => eval cfg al G n) k) :
    RefF F (fun G => eval cfg al G (optRepeat rp n)) (repeatOf cfg al rp k) := by
  unfold optRepeat repeatOf
  cases rp with
  | none => exact h
  | some x =>
    obtain ⟨rid, d, ws⟩ := x
    intro G hG
    cases G with
    | zero => simp only [eval]; exact le_unsupported _ _
    | succ G =>
      obtain ⟨ctx, names, expr⟩ := d
      simp only [eval]
      have hl := fun key items rem => refF_loop cfg al F key names (ctx == .local_) ws n k h items rem G (by omega)
      rcases names with _ | ⟨nm, _ | ⟨nm2, more⟩⟩ <;> (try simp only []) <;> le
      all_goals first | exact hl _ _ _ | exact le_unsupported _ _ | (exfalso; simp_all; done)

theorem refF_definesOf (F : Nat) (n : Node) (k : List (Str × Val) → RM Unit)
    (h : ∀ al', RefF F (fun G => eval cfg al' G n) (k al')) :
    ∀ (assigns : List Assign) (al : List (Str × Val)) (bk : List (Str × Option Val)),
      RefF F (fun G => evalDefine cfg al G assigns n bk) (definesOf cfg assigns al bk k) := by
  intro assigns
  induction assigns with
  | nil =>
    intro al bk G hG
    cases G with
    | zero => simp only [evalDefine]; exact le_unsupported _ _
    | succ G =>
      simp only [evalDefine, definesOf]
      have := h al G (by omega)
      le
  | cons a rest ih =>
    intro al bk G hG
    cases G with
    | zero => simp only [evalDefine]; exact le_unsupported _ _
    | succ G =>
      cases a with
      | alias name e =>
        simp only [evalDefine, definesOf]
        exact le_bind_right _ _ _ (fun v => ih _ _ G (by omega))
      | assign names e loc =>
        simp only [evalDefine, definesOf]
        have hi := fun al bk => ih al bk G (by omega)
        rcases names with _ | ⟨nm, _ | ⟨nm2, more⟩⟩ <;> (try simp only []) <;> le
        all_goals first | exact hi _ _ | exact le_unsupported _ _ | (exfalso; simp_all; done)

theorem refF_define (al : List (Str × Val)) (F : Nat) (assigns : List Assign) (n : Node) (k : List (Str × Val) → RM Unit)
    (h : ∀ al', RefF F (fun G => eval cfg al' G n) (k al')) :
    RefF F (fun G => eval cfg al G (.define assigns n)) (definesOf cfg assigns al [] k) := by
  intro G hG
  cases G with
  | zero => simp only [eval]; exact le_unsupported _ _
  | succ G => simp only [eval]; exact refF_definesOf cfg F n k h assigns al [] G (by omega)

/-! ### the remaining statements -/

def optDomain (d : Option Tok) (n : Node) : Node := match d with | none => n | some cl => .domain cl.str n
def optContext (c : Option Tok) (n : Node) : Node := match c with | none => n | some cl => .txContext cl.str n
def optTarget (t : Option Tok) (n : Node) : Node :=
  match t with
  | none => n
  | some cl => .define [.alias (lit "default") (.pyName (lit "target_language"))] (.target (.value cl) n)
def optSlot (ds : Option Tok) (n : Node) : Node := match ds with | none => n | some cl => .defineSlot cl n

theorem refF_domainOf (al : List (Str × Val)) (F : Nat) (d : Option Tok) (n : Node) (k : RM Unit)
    (h : RefF F (fun G => eval cfg al G n) k) : RefF F (fun G => eval cfg al G (optDomain d n)) (domainOf d k) := by
  unfold optDomain domainOf
  cases d with
  | none => exact h
  | some cl =>
    intro G hG
    cases G with
    | zero => simp only [eval]; exact le_unsupported _ _
    | succ G => simp only [eval]; have := h G (by omega); le

theorem refF_contextOf (al : List (Str × Val)) (F : Nat) (c : Option Tok) (n : Node) (k : RM Unit)
    (h : RefF F (fun G => eval cfg al G n) k) : RefF F (fun G => eval cfg al G (optContext c n)) (contextOf c k) := by
  unfold optContext contextOf
  cases c with
  | none => exact h
  | some cl =>
    intro G hG
    cases G with
    | zero => simp only [eval]; exact le_unsupported _ _
    | succ G => simp only [eval]; have := h G (by omega); le

theorem refF_target (al : List (Str × Val)) (F : Nat) (cl : Tok) (n : Node) (k : RM Unit)
    (h : RefF F (fun G => eval cfg al G n) k) :
    RefF F (fun G => eval cfg al G (.target (.value cl) n)) (do
      let s ← mGet
      let old := s.env.topFrame.targetLang
      let v ← enVal cfg al (.value cl)
      modFrame (fun fr => { fr with targetLang := v })
      setVar (lit "target_language") v
      k
      modFrame (fun fr => { fr with targetLang := old })
      setVar (lit "target_language") old) := by
  intro G hG
  cases G with
  | zero => simp only [eval]; exact le_unsupported _ _
  | succ G => simp only [eval]; have := h G (by omega); le

theorem refF_targetOf (al : List (Str × Val)) (F : Nat) (t : Option Tok) (n : Node) (k : List (Str × Val) → RM Unit)
    (h : ∀ al', RefF F (fun G => eval cfg al' G n) (k al')) :
    RefF F (fun G => eval cfg al G (optTarget t n)) (targetOf cfg al t k) := by
  unfold optTarget targetOf
  cases t with
  | none => exact h al
  | some cl =>
    exact refF_define_alias cfg al F (lit "default") (.pyName (lit "target_language")) _ _
      (fun v => refF_target cfg _ F cl n _ (h _))

theorem refF_slotOf (al : List (Str × Val)) (F : Nat) (ds : Option Tok) (n : Node) (k : RM Unit)
    (h : RefF F (fun G => eval cfg al G n) k) : RefF F (fun G => eval cfg al G (optSlot ds n)) (slotOf cfg F ds k) := by
  unfold optSlot slotOf
  cases ds with
  | none => exact h
  | some nm =>
    intro G hG
    cases G with
    | zero => simp only [eval]; exact le_unsupported _ _
    | succ G =>
      have hGk : Le (eval cfg al G n) k := h G (by omega)
      refine le_of_at (fun s hs => ?_)
      simp only [eval] at hs ⊢
      cases hl : lookupAssoc s.env.topFrame.slotFns (mangleName nm.str) with
      | none => simp only [hl] at hs ⊢; exact hGk.at_ s hs
      | some o =>
        cases o with
        | none => simp only [hl] at hs ⊢; exact hGk.at_ s hs
        | some cid =>
          simp only [hl] at hs ⊢
          cases hc : s.closures[cid]? with
          | none => simp only [hc] at hs ⊢
          | some cl =>
            simp only [hc] at hs ⊢
            exact (le_wrap (eval cfg cl.al G cl.node) (eval cfg cl.al F cl.node) (fillerEnter cl) fillerLeave fillerRaise
              (eval_fuel_le cfg cl.al cl.node G F (by omega))).at_ s hs

theorem refF_nameOf (al : List (Str × Val)) (F : Nat) (nm : Option Tok) (n : Node) (k : RM Unit)
    (h : RefF F (fun G => eval cfg al G n) k) :
    RefF F (fun G => eval cfg al G (match nm with | some cl => Node.name cl n | none => n)) (nameOf nm k) := by
  unfold nameOf
  cases nm with
  | none => exact h
  | some cl =>
    intro G hG
    cases G with
    | zero => simp only [eval]; exact le_unsupported _ _
    | succ G => simp only [eval]; have := h G (by omega); le

theorem refF_onErrorOf (al : List (Str × Val)) (F : Nat) (id : Nat) (fb n : Node) (kfb k : RM Unit)
    (hfb : RefF F (fun G => eval cfg al G fb) kfb) (h : RefF F (fun G => eval cfg al G n) k) :
    RefF F (fun G => eval cfg al G (.onError id fb n)) (onErrorOf cfg id kfb k) := by
  intro G hG
  cases G with
  | zero => simp only [eval]; exact le_unsupported _ _
  | succ G =>
    refine le_of_at (fun s hs => ?_)
    simp only [eval, onErrorOf] at hs ⊢
    generalize hs1 : ({ s with env := match s.env.frames with
      | fr :: rest => { s.env with frames := { fr with saved := ((if cfg.tc.q.sharedFallbackVar = true then 0 else id), (s.streams.headD []).length) :: fr.saved.filter (·.1 != (if cfg.tc.q.sharedFallbackVar = true then 0 else id)) } :: rest }
      | [] => s.env } : RState) = s1 at hs ⊢
    have hGk : Le (eval cfg al G n) k := h G (by omega)
    have hGfb : Le (eval cfg al G fb) kfb := hfb G (by omega)
    cases hr : eval cfg al G n s1 with
    | unsupported w => exact absurd (by simp [hr]) (hs w)
    | ok u s' =>
      have : k s1 = eval cfg al G n s1 := hGk.at_ s1 (by intro w hw; rw [hr] at hw; cases hw)
      rw [this, hr]
    | raised ex s' =>
      have : k s1 = eval cfg al G n s1 := hGk.at_ s1 (by intro w hw; rw [hr] at hw; cases hw)
      rw [this, hr]
      simp only [hr] at hs
      by_cases hsub : (!isSubclass cfg ex.cls ["Exception"]) = true
      · simp only [hsub, if_true]
      · simp only [hsub] at hs ⊢
        cases ho : onErrorHandle cfg (if cfg.tc.q.sharedFallbackVar = true then 0 else id) s.streams.length
            (List.length (s.streams.headD [])) ex s' with
        | none => rfl
        | some s2 =>
          simp only [ho] at hs ⊢
          exact hGfb.at_ _ hs

/-- the children, `tal:content`, or a static `i18n:translate` around them -/
theorem refF_contentFullOf (al : List (Str × Val)) (F : Nat) (ip : InnerSpec) (body : List Node) :
    RefF F (fun G => eval cfg al G (ip.contentNode (.seq body)))
      (contentFullOf cfg F ip (.seq body) (fun al' => evalList cfg al' F body) al) := by
  unfold contentFullOf
  cases ht : ip.translate with
  | none =>
    exact refF_contentOf cfg al F ip ht (.seq body) _ (fun al' => refF_seq cfg al' F body _ (refF_evalList cfg al' F body))
  | some t => exact refF_eval cfg al F _

theorem refF_taggedFullOf (al : List (Str × Val)) (F : Nat) (ip : InnerSpec) (body : List Node) :
    RefF F (fun G => eval cfg al G (ip.tagged (.seq body)))
      (taggedFullOf cfg F ip (.seq body) (fun al' => evalList cfg al' F body) al) := by
  unfold InnerSpec.tagged taggedFullOf
  have hct := refF_contentFullOf cfg al F ip body
  by_cases ho : ip.omitAlways = true
  · simp only [ho, if_true]; exact hct
  · simp only [ho, Bool.false_eq_true, if_false]
    cases hoe : ip.omitExpr with
    | none =>
      simp only
      refine refF_element cfg al F _ _ _ _ _ _ (refF_eval cfg al F _) hct ?_
      cases ip.endTag with
      | none => rfl
      | some e => exact refF_eval cfg al F e
    | some oc =>
      obtain ⟨oid, cl⟩ := oc
      simp only
      cases hen : ip.endTag with
      | none =>
        have key := refF_cache_one cfg al F oid (.negate (.value cl)) _ _
          (refF_element cfg al F (.condition (.e (.ref oid)) ip.startTag none) (ip.contentNode (.seq body)) none _ _ (pure ())
            (refF_condition cfg al F _ _ none _ (pure ()) (refF_eval cfg al F ip.startTag) rfl) hct rfl)
        intro G hG
        have := key G hG
        simp only [rm_bind_assoc, Option.map_none] at this ⊢
        exact this
      | some e =>
        have key := refF_cache_one cfg al F oid (.negate (.value cl)) _ _
          (refF_element cfg al F (.condition (.e (.ref oid)) ip.startTag none) (ip.contentNode (.seq body))
            (some (Node.condition (.e (.ref oid)) e none)) _ _ _
            (refF_condition cfg al F _ _ none _ (pure ()) (refF_eval cfg al F ip.startTag) rfl) hct
            (refF_condition cfg al F _ _ none _ (pure ()) (refF_eval cfg al F e) rfl))
        intro G hG
        have := key G hG
        simp only [rm_bind_assoc, Option.map_some] at this ⊢
        exact this

theorem refF_innerFullOf (al : List (Str × Val)) (F : Nat) (p : ElemStmts) (slots : List (Tok × Node)) (body : List Node) :
    RefF F (fun G => eval cfg al G (p.innerNode slots body))
      (innerFullOf cfg F p slots body (fun al' => evalList cfg al' F body) al) := by
  unfold ElemStmts.innerNode innerFullOf
  cases hk : p.kind with
  | macroUse tok ext =>
    have hn : p.innerNode slots body =
        Node.define [Assign.assign [{ str := lit "macroname", pos := 0 }] (EN.const (rsplitSlash tok.str)) true]
          (Node.useExternal (EN.value tok) slots ext) := by
      simp only [ElemStmts.innerNode, hk]
    simp only [hn]
    exact refF_eval cfg al F _
  | tal ip =>
    simp only [InnerSpec.node]
    cases hr : ip.replace with
    | none => exact refF_taggedFullOf cfg al F ip body
    | some r =>
      obtain ⟨id, expr, st, tr⟩ := r
      exact refF_insertOr cfg al F (id, expr, st, tr) (ip.tagged (.seq body)) _ (fun al' => refF_taggedFullOf cfg al' F ip body)

end layers

/-! ## what the builder assembles -/

/-- the nesting of the statement nodes of an element of the fragment: definitions outermost, then `tal:case`,
`tal:condition`, `tal:repeat`, `tal:switch` (the order `wrapOrder`, observed on the real builder: `C01_wrapOrder_observed`) -/
theorem wrappers_shape (p : ElemStmts) (ip : InnerSpec) (h : talOnly p ip) (inner : Node) :
    applyWrappers p.wrappers wrapOrder inner =
      .define p.assigns (optCase p.case_ (optCond p.condition (optRepeat p.repeat_ (optSwitch p.switch inner)))) := by
  obtain ⟨_, _, hds, hdo, hcx, htg, _, _, _, _⟩ := h
  unfold ElemStmts.wrappers
  rw [hds, hdo, hcx, htg]
  rcases p.case_ with _ | ⟨sw, ccl⟩ <;> rcases p.condition with _ | cl <;> rcases p.repeat_ with _ | ⟨rid, d, ws⟩ <;>
    rcases p.switch with _ | ⟨sid, scl⟩ <;> rfl

set_option maxHeartbeats 4000000 in
/-- the nesting of all statement wrappers: `metal:define-slot` ▸ definitions ▸ `tal:case` ▸ `tal:condition` ▸ `tal:repeat` ▸
`tal:switch` ▸ `i18n:domain` ▸ `i18n:context` ▸ `i18n:target` -/
theorem wrappers_shape_full (p : ElemStmts) (inner : Node) :
    applyWrappers p.wrappers wrapOrder inner =
      optSlot p.defineSlot (.define p.assigns (optCase p.case_ (optCond p.condition (optRepeat p.repeat_ (optSwitch p.switch
        (optDomain p.domain (optContext p.context (optTarget p.target inner)))))))) := by
  unfold ElemStmts.wrappers
  rcases p.defineSlot with _ | ds <;> rcases p.case_ with _ | ⟨sw, ccl⟩ <;> rcases p.condition with _ | cl <;>
    rcases p.repeat_ with _ | ⟨rid, d, ws⟩ <;> rcases p.switch with _ | ⟨sid, scl⟩ <;> rcases p.domain with _ | dm <;>
    rcases p.context with _ | cx <;> rcases p.target with _ | tg <;> rfl

/-- `elementPost` always succeeds; its node is `fullNode` of the parsed statements, the slot fillers the children
registered (for a macro use) and the children's nodes -/
theorem elementPost_shape (p : ElemStmts) (body : List Node) (st : BState) :
    ∃ st' oid, elementPost p body st = .ok (p.fullNode oid (st.useMacro.headD []) body, st') := by
  unfold elementPost
  simp only [bind, bModify, bGet, pure]
  by_cases hu : p.useMacroNonEmpty = true <;> simp only [hu, if_true, Bool.false_eq_true, if_false] <;>
    rcases hf : p.fillSlot with _ | cl <;> simp only [] <;>
    rcases hm : p.defineMacro with _ | cm <;> simp only [] <;>
    rcases ho : p.onError with _ | oe <;> simp only [freshId, pure] <;>
    exact ⟨_, _, rfl⟩

/-- for an element of the fragment the node is the statement wrappers around `InnerSpec.node` of the children's nodes -/
theorem elementPost_tal (p : ElemStmts) (ip : InnerSpec) (h : talOnly p ip) (body : List Node) (st : BState) :
    ∃ st', elementPost p body st = .ok (applyWrappers p.wrappers wrapOrder (ip.node (.seq body)), st') := by
  obtain ⟨st', oid, hs⟩ := elementPost_shape p body st
  obtain ⟨hk, _, _, _, _, _, hn, hf, hm, ho⟩ := h
  refine ⟨st', ?_⟩
  rw [hs]
  simp only [ElemStmts.fullNode, ElemStmts.slotNode, ElemStmts.innerNode, hk, hn, hm, ho]

/-- **C01 (an element renders as the statement semantics prescribes)**: for every element of the TAL fragment
(`tal:define`, `tal:case`, `tal:condition`, `tal:repeat`, `tal:switch`, `tal:content` | `tal:replace`, `tal:omit-tag`,
`tal:attributes`; no METAL, i18n or `tal:on-error` on the element itself — its children are arbitrary), every list of
child nodes, alias list, scope and state: whenever the interpreter reaches a verdict on the node the builder assembles
(`elementPost`), with whatever fuel `G`, `specElement` reaches the same verdict — the same output, scope, logs, or the
same exception — the children rendered by `evalList`.  So: definitions first, then the guards, then repetition, then
replacement, tag omission with the attributes, and content. -/
theorem C01_element_semantics (cfg : ECfg) (p : ElemStmts) (ip : InnerSpec) (h : talOnly p ip) (body : List Node)
    (st st' : BState) (node : Node) (hb : elementPost p body st = .ok (node, st'))
    (al : List (Str × Val)) (F G : Nat) (hG : G ≤ F) :
    Le (eval cfg al G node) (specElement cfg F p ip (fun al' => evalList cfg al' F body) al) := by
  obtain ⟨st1, hp⟩ := elementPost_tal p ip h body st
  rw [hp] at hb
  have hnode : node = applyWrappers p.wrappers wrapOrder (ip.node (.seq body)) := by
    injection hb with hb; injection hb with h1 _; exact h1.symm
  subst hnode
  rw [wrappers_shape p ip h]
  unfold specElement
  exact refF_define cfg al F p.assigns _ _ (fun al1 =>
    refF_caseOf cfg al1 F p.case_ _ _ (fun al2 =>
      refF_conditionOf cfg al2 F p.condition _ _
        (refF_repeatOf cfg al2 F p.repeat_ _ _
          (refF_switchOf cfg al2 F p.switch _ _
            (refF_innerOf cfg al2 F ip h.2.1 (.seq body) _
              (fun al' => refF_seq cfg al' F body _ (refF_evalList cfg al' F body))))))) G hG

/-- … in plain words, for normal completion: the state the interpreter ends in is the state the semantics prescribes -/
theorem C01_element_ok (cfg : ECfg) (p : ElemStmts) (ip : InnerSpec) (h : talOnly p ip) (body : List Node)
    (st st' : BState) (node : Node) (hb : elementPost p body st = .ok (node, st'))
    (al : List (Str × Val)) (F G : Nat) (hG : G ≤ F) (s s' : RState) (he : eval cfg al G node s = .ok () s') :
    specElement cfg F p ip (fun al' => evalList cfg al' F body) al s = .ok () s' := by
  rw [(C01_element_semantics cfg p ip h body st st' node hb al F G hG).at_ s (by intro w hw; rw [he] at hw; cases hw), he]

/-- … and for an exception -/
theorem C01_element_raised (cfg : ECfg) (p : ElemStmts) (ip : InnerSpec) (h : talOnly p ip) (body : List Node)
    (st st' : BState) (node : Node) (hb : elementPost p body st = .ok (node, st'))
    (al : List (Str × Val)) (F G : Nat) (hG : G ≤ F) (s s' : RState) (ex : Exc) (he : eval cfg al G node s = .raised ex s') :
    specElement cfg F p ip (fun al' => evalList cfg al' F body) al s = .raised ex s' := by
  rw [(C01_element_semantics cfg p ip h body st st' node hb al F G hG).at_ s (by intro w hw; rw [he] at hw; cases hw), he]

/-- **C01 (every element renders as the statement semantics prescribes)**: for *every* element — any combination of TAL,
METAL and i18n statements and `tal:on-error` — every list of child nodes, builder state, alias list, scope, state and fuel:
whenever the interpreter reaches a verdict on the node `elementPost` builds, `specFull` reaches the same verdict.  So the
statements act in one fixed order: `tal:on-error` ▸ `i18n:name` ▸ (in-place use of a defined macro |) `metal:define-slot` ▸
definitions ▸ `tal:case` ▸ `tal:condition` ▸ `tal:repeat` ▸ `tal:switch` ▸ `i18n:domain` ▸ `i18n:context` ▸ `i18n:target` ▸
`tal:replace` ▸ tags (`tal:omit-tag`, attributes) ▸ `tal:content` ▸ children. -/
theorem C01_element_semantics_full (cfg : ECfg) (p : ElemStmts) (body : List Node) (st st' : BState) (node : Node)
    (hb : elementPost p body st = .ok (node, st')) :
    ∃ oid, ∀ (al : List (Str × Val)) (F G : Nat), G ≤ F →
      Le (eval cfg al G node) (specFull cfg F p oid (st.useMacro.headD []) body al) := by
  obtain ⟨st1, oid, hp⟩ := elementPost_shape p body st
  rw [hp] at hb
  have hnode : node = p.fullNode oid (st.useMacro.headD []) body := by
    injection hb with hb; injection hb with h1 _; exact h1.symm
  subst hnode
  refine ⟨oid, fun al F G hG => ?_⟩
  -- the core: name ▸ macro ▸ slot ▸ wrappers ▸ inner
  have hslot : RefF F (fun G => eval cfg al G (p.slotNode (st.useMacro.headD []) body))
      (slotOf cfg F p.defineSlot (definesOf cfg p.assigns al [] fun al1 =>
        caseOf cfg al1 p.case_ fun al2 => conditionOf cfg al2 p.condition <| repeatOf cfg al2 p.repeat_ <|
        switchOf cfg al2 p.switch <| domainOf p.domain <| contextOf p.context <| targetOf cfg al2 p.target fun al3 =>
        innerFullOf cfg F p (st.useMacro.headD []) body (fun al' => evalList cfg al' F body) al3)) := by
    unfold ElemStmts.slotNode
    rw [wrappers_shape_full]
    exact refF_slotOf cfg al F p.defineSlot _ _ (refF_define cfg al F p.assigns _ _ (fun al1 =>
      refF_caseOf cfg al1 F p.case_ _ _ (fun al2 =>
        refF_conditionOf cfg al2 F p.condition _ _ (refF_repeatOf cfg al2 F p.repeat_ _ _ (refF_switchOf cfg al2 F p.switch _ _
          (refF_domainOf cfg al2 F p.domain _ _ (refF_contextOf cfg al2 F p.context _ _ (refF_targetOf cfg al2 F p.target _ _
            (fun al3 => refF_innerFullOf cfg al3 F p (st.useMacro.headD []) body)))))))))
  have hmacro : RefF F (fun G => eval cfg al G (match p.defineMacro with
        | some cl => Node.useInternal (some cl.str) | none => p.slotNode (st.useMacro.headD []) body))
      (macroOf cfg F al p.defineMacro (slotOf cfg F p.defineSlot (definesOf cfg p.assigns al [] fun al1 =>
        caseOf cfg al1 p.case_ fun al2 => conditionOf cfg al2 p.condition <| repeatOf cfg al2 p.repeat_ <|
        switchOf cfg al2 p.switch <| domainOf p.domain <| contextOf p.context <| targetOf cfg al2 p.target fun al3 =>
        innerFullOf cfg F p (st.useMacro.headD []) body (fun al' => evalList cfg al' F body) al3))) := by
    unfold macroOf
    cases p.defineMacro with
    | none => exact hslot
    | some cl => exact refF_eval cfg al F _
  have hname := refF_nameOf cfg al F p.name _ _ hmacro
  unfold ElemStmts.fullNode specFull
  cases ho : p.onError with
  | none => exact hname G hG
  | some oe =>
    obtain ⟨stt, expr⟩ := oe
    exact refF_onErrorOf cfg al F oid _ _ _ _ (refF_eval cfg al F _) hname G hG

/-- the hypotheses are met: an element with `tal:condition`, `tal:repeat`, `tal:content` and `tal:omit-tag` -/
example : ∃ (p : ElemStmts) (ip : InnerSpec), talOnly p ip ∧ p.condition.isSome ∧ p.repeat_.isSome ∧ ip.content.isSome ∧
    ip.omitExpr.isSome :=
  let t : Tok := { str := lit "x", pos := 0 }
  let d : DefineSpec := { ctx := DefCtx.local_, names := [t], expr := t }
  let ip : InnerSpec := { content := some (1, t, false, false), translate := none, startTag := .text (lit "<p>"),
                          endTag := some (.text (lit "</p>")), omitAlways := false, omitExpr := some (2, t), replace := none }
  let p : ElemStmts := { (default : ElemStmts) with kind := InnerKind.tal ip, repeat_ := some (3, d, []), condition := some t }
  ⟨p, ip, ⟨rfl, rfl, rfl, rfl, rfl, rfl, rfl, rfl, rfl, rfl⟩, rfl, rfl, rfl, rfl⟩

end ChamVerif

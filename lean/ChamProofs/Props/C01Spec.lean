import ChamVerif.Spec
import ChamProofs.Fuel
/-! # C01 — the interpreter renders an element's node as the statement semantics prescribes

`Spec.specElement` (in `ChamVerif/Spec.lean`) is the reference: definitions first, then the guards, then repetition,
then replacement, tag omission with the attributes, and content.  `C01_element_semantics`: for every element of the TAL
fragment, the node the program builder assembles from the element's parsed statements (`elementPost`), evaluated by
the interpreter with whatever fuel, gives the verdict — output, scope, logs, exception — that `specElement` gives. -/
namespace ChamVerif
open ChamVerif.Fuel ChamVerif.Spec

/-! ## `RM` is a lawful monad (as far as needed) -/

theorem rm_bind_assoc {α β γ} (m : RM α) (f : α → RM β) (g : β → RM γ) :
    (m >>= f) >>= g = m >>= fun a => f a >>= g := by
  funext s
  simp only [bind]
  cases m s <;> rfl

theorem rm_pure_bind {α β} (a : α) (f : α → RM β) : (pure a : RM α) >>= f = f a := rfl

theorem rm_bind_pure_unit (m : RM Unit) : (m >>= fun _ => (pure () : RM Unit)) = m := by
  funext s
  simp only [bind]
  cases m s <;> rfl

theorem forM_one {α} (g : α → RM Unit) (a : α) : [a].forM g = g a := by
  show (g a >>= fun _ => pure ()) = g a
  exact rm_bind_pure_unit _

/-- `k` is what the fuel-indexed computation `m` computes, whenever it has fuel enough to compute anything -/
def RefF (F : Nat) (m : Nat → RM Unit) (k : RM Unit) : Prop := ∀ G, G ≤ F → Le (m G) k

theorem le_unsupported {α} (w : String) (k : RM α) : Le (mUnsupported w : RM α) k :=
  ⟨fun s hs => absurd rfl (hs w)⟩

theorem refF_mono {F F' : Nat} {m : Nat → RM Unit} {k : RM Unit} (h : RefF F m k) (hF : F' ≤ F) : RefF F' m k :=
  fun G hG => h G (Nat.le_trans hG hF)

/-- evaluating a node with less fuel than `F` refines evaluating it with `F` -/
theorem refF_eval (cfg : ECfg) (al : List (Str × Val)) (F : Nat) (n : Node) :
    RefF F (fun G => eval cfg al G n) (eval cfg al F n) :=
  fun G hG => eval_fuel_le cfg al n G F hG

theorem refF_evalList (cfg : ECfg) (al : List (Str × Val)) (F : Nat) (ns : List Node) :
    RefF F (fun G => evalList cfg al G ns) (evalList cfg al F ns) :=
  fun G hG => evalList_fuel_le cfg al ns G F hG

/-! ## one layer of the node tree at a time -/

section layers
variable (cfg : ECfg)

theorem refF_seq (al : List (Str × Val)) (F : Nat) (ns : List Node) (k : RM Unit)
    (h : RefF F (fun G => evalList cfg al G ns) k) : RefF F (fun G => eval cfg al G (.seq ns)) k := by
  intro G hG
  cases G with
  | zero => simp only [eval]; exact le_unsupported _ _
  | succ G => simp only [eval]; exact h G (by omega)

theorem refF_content (al : List (Str × Val)) (F : Nat) (e : EN) (esc tr : Bool) :
    RefF F (fun G => eval cfg al G (.content e esc tr)) (emitValue cfg al e esc tr) := by
  intro G hG
  cases G with
  | zero => simp only [eval]; exact le_unsupported _ _
  | succ G => simp only [eval, emitValue]; exact le_refl _

theorem refF_cache_one (al : List (Str × Val)) (F : Nat) (id : Nat) (e : EN) (n : Node) (k : RM Unit)
    (h : RefF F (fun G => eval cfg al G n) k) :
    RefF F (fun G => eval cfg al G (.cache [(id, e)] n)) (do let v ← enVal cfg al e; setCache id v; k) := by
  intro G hG
  cases G with
  | zero => simp only [eval]; exact le_unsupported _ _
  | succ G =>
    simp only [eval, forM_one, setCache, rm_bind_assoc]
    have := h G (by omega)
    le

theorem refF_cancel_one (al : List (Str × Val)) (F : Nat) (id : Nat) (n : Node) (k : RM Unit)
    (h : RefF F (fun G => eval cfg al G n) k) :
    RefF F (fun G => eval cfg al G (.cancel [id] n)) (do setCache id (Val.excClass "<CANCEL>"); k) := by
  intro G hG
  cases G with
  | zero => simp only [eval]; exact le_unsupported _ _
  | succ G =>
    simp only [eval, forM_one, setCache]
    have := h G (by omega)
    le

theorem refF_condition (al : List (Str × Val)) (F : Nat) (c : CondE) (n : Node) (o : Option Node) (k ko : RM Unit)
    (h : RefF F (fun G => eval cfg al G n) k)
    (ho : match o with | some on => RefF F (fun G => eval cfg al G on) ko | none => ko = pure ()) :
    RefF F (fun G => eval cfg al G (.condition c n o))
      (do let v ← liftX (fun env => evalCond cfg al env 16 c); let b ← vTruthy cfg v; if b then k else ko) := by
  intro G hG
  cases G with
  | zero => simp only [eval]; exact le_unsupported _ _
  | succ G =>
    simp only [eval]
    have := h G (by omega)
    cases o with
    | none => subst ho; le
    | some on => have := ho G (by omega); le

theorem refF_element (al : List (Str × Val)) (F : Nat) (st ct : Node) (en : Option Node) (kst kct ken : RM Unit)
    (hst : RefF F (fun G => eval cfg al G st) kst) (hct : RefF F (fun G => eval cfg al G ct) kct)
    (hen : match en with | some e => RefF F (fun G => eval cfg al G e) ken | none => ken = pure ()) :
    RefF F (fun G => eval cfg al G (.element st en ct)) (do kst; kct; ken) := by
  intro G hG
  cases G with
  | zero => simp only [eval]; exact le_unsupported _ _
  | succ G =>
    simp only [eval]
    have := hst G (by omega)
    have := hct G (by omega)
    cases en with
    | none => subst hen; le
    | some e => have := hen G (by omega); le

/-- `define [alias name e] n`: the alias is in force while `n` renders -/
theorem refF_define_alias (al : List (Str × Val)) (F : Nat) (name : Str) (e : EN) (n : Node) (k : Val → RM Unit)
    (h : ∀ v, RefF F (fun G => eval cfg ((name, v) :: al) G n) (k v)) :
    RefF F (fun G => eval cfg al G (.define [.alias name e] n)) (do let v ← enVal cfg al e; k v) := by
  intro G hG
  match G with
  | 0 => simp only [eval]; exact le_unsupported _ _
  | 1 => simp only [eval, evalDefine]; exact le_unsupported _ _
  | 2 =>
    simp only [eval, evalDefine]
    exact le_bind_right _ _ _ (fun v => le_unsupported _ _)
  | G + 3 =>
    have hnil : ∀ g : (Str × Option Val) → RM Unit, ([] : List (Str × Option Val)).forM g = pure () := fun _ => rfl
    simp only [eval, evalDefine, restore, hnil, rm_bind_pure_unit]
    exact le_bind_right _ _ _ (fun v => h v G (by omega))

theorem enVal_marker_eq (al : List (Str × Val)) : enVal cfg al .marker = (pure Val.dflt : RM Val) := by
  funext s
  simp [enVal, liftX, evalEN, pure]

/-- `_make_content_node` with a default: `insertOr` -/
theorem refF_insertOr (al : List (Str × Val)) (F : Nat) (st : Nat × Tok × Bool × Bool) (d : Node)
    (orig : List (Str × Val) → RM Unit)
    (h : ∀ al', RefF F (fun G => eval cfg al' G d) (orig al')) :
    RefF F (fun G => eval cfg al G (makeContentNode st.1 st.2.1 (some d) st.2.2.1 st.2.2.2)) (insertOr cfg al st orig) := by
  unfold makeContentNode insertOr
  have key := refF_define_alias cfg al F (lit "default") .marker
    (.cache [(st.1, .value st.2.1)]
      (.condition (.e (.binop (.ref st.1) .is_ .marker)) d (some (.content (.ref st.1) (!st.2.2.1) st.2.2.2))))
    (fun v => do
      let x ← enVal cfg ((lit "default", v) :: al) (.value st.2.1)
      setCache st.1 x
      let isDefault ← liftX (fun env => evalCond cfg ((lit "default", v) :: al) env 16 (.e (.binop (.ref st.1) .is_ .marker)))
      let b ← vTruthy cfg isDefault
      if b then orig ((lit "default", v) :: al) else emitValue cfg ((lit "default", v) :: al) (.ref st.1) (!st.2.2.1) st.2.2.2)
    (fun v => refF_cache_one cfg _ F _ _ _ _
      (refF_condition cfg _ F _ _ _ _ _ (h _) (refF_content cfg _ F _ _ _)))
  rw [enVal_marker_eq, rm_pure_bind] at key
  exact key

/-- the children, or what `tal:content` puts in their place -/
theorem refF_contentOf (al : List (Str × Val)) (F : Nat) (ip : InnerSpec) (ht : ip.translate = none) (b : Node)
    (bodyK : List (Str × Val) → RM Unit) (h : ∀ al', RefF F (fun G => eval cfg al' G b) (bodyK al')) :
    RefF F (fun G => eval cfg al G (ip.contentNode b)) (contentOf cfg ip bodyK al) := by
  unfold InnerSpec.contentNode contentOf
  rw [ht]
  cases hc : ip.content with
  | none => exact h al
  | some c =>
    obtain ⟨id, expr, st, tr⟩ := c
    exact refF_insertOr cfg al F (id, expr, st, tr) b bodyK h

/-- the tags around it, unless omitted -/
theorem refF_taggedOf (al : List (Str × Val)) (F : Nat) (ip : InnerSpec) (ht : ip.translate = none) (b : Node)
    (bodyK : List (Str × Val) → RM Unit) (h : ∀ al', RefF F (fun G => eval cfg al' G b) (bodyK al')) :
    RefF F (fun G => eval cfg al G (ip.tagged b)) (taggedOf cfg F ip bodyK al) := by
  unfold InnerSpec.tagged taggedOf
  have hct := refF_contentOf cfg al F ip ht b bodyK h
  by_cases ho : ip.omitAlways = true
  · simp only [ho, if_true]; exact hct
  · simp only [ho, Bool.false_eq_true, if_false]
    cases hoe : ip.omitExpr with
    | none =>
      simp only
      refine refF_element cfg al F _ _ _ _ _ _ (refF_eval cfg al F _) hct ?_
      cases ip.endTag with
      | none => rfl
      | some e => exact refF_eval cfg al F e
    | some oc =>
      obtain ⟨oid, cl⟩ := oc
      simp only
      cases hen : ip.endTag with
      | none =>
        have key := refF_cache_one cfg al F oid (.negate (.value cl)) _ _
          (refF_element cfg al F (.condition (.e (.ref oid)) ip.startTag none) (ip.contentNode b) none _ _ (pure ())
            (refF_condition cfg al F _ _ none _ (pure ()) (refF_eval cfg al F ip.startTag) rfl) hct rfl)
        intro G hG
        have := key G hG
        simp only [rm_bind_assoc, Option.map_none] at this ⊢
        exact this
      | some e =>
        have key := refF_cache_one cfg al F oid (.negate (.value cl)) _ _
          (refF_element cfg al F (.condition (.e (.ref oid)) ip.startTag none) (ip.contentNode b)
            (some (Node.condition (.e (.ref oid)) e none)) _ _ _
            (refF_condition cfg al F _ _ none _ (pure ()) (refF_eval cfg al F ip.startTag) rfl) hct
            (refF_condition cfg al F _ _ none _ (pure ()) (refF_eval cfg al F e) rfl))
        intro G hG
        have := key G hG
        simp only [rm_bind_assoc, Option.map_some] at this ⊢
        exact this

/-- `tal:replace`, or the element -/
theorem refF_innerOf (al : List (Str × Val)) (F : Nat) (ip : InnerSpec) (ht : ip.translate = none) (b : Node)
    (bodyK : List (Str × Val) → RM Unit) (h : ∀ al', RefF F (fun G => eval cfg al' G b) (bodyK al')) :
    RefF F (fun G => eval cfg al G (ip.node b)) (innerOf cfg F ip bodyK al) := by
  unfold InnerSpec.node innerOf
  cases hr : ip.replace with
  | none => exact refF_taggedOf cfg al F ip ht b bodyK h
  | some r =>
    obtain ⟨id, expr, st, tr⟩ := r
    exact refF_insertOr cfg al F (id, expr, st, tr) (ip.tagged b) (taggedOf cfg F ip bodyK)
      (fun al' => refF_taggedOf cfg al' F ip ht b bodyK h)

/-! ## the statement wrappers -/

def optSwitch (sw : Option (Nat × Tok)) (n : Node) : Node :=
  match sw with | none => n | some (sid, cl) => .cache [(sid, .value cl)] n
def optRepeat (rp : Option (Nat × DefineSpec × Str)) (n : Node) : Node :=
  match rp with | none => n | some (rid, d, ws) => .repeat_ rid d.names (.value d.expr) (d.ctx == .local_) ws n
def optCond (c : Option Tok) (n : Node) : Node :=
  match c with | none => n | some cl => .condition (.e (.value cl)) n none
def optCase (cs : Option (Nat × Tok)) (n : Node) : Node :=
  match cs with | none => n | some (sw, cl) => caseNode sw cl n

theorem refF_switchOf (al : List (Str × Val)) (F : Nat) (sw : Option (Nat × Tok)) (n : Node) (k : RM Unit)
    (h : RefF F (fun G => eval cfg al G n) k) :
    RefF F (fun G => eval cfg al G (optSwitch sw n)) (switchOf cfg al sw k) := by
  unfold optSwitch switchOf
  cases sw with
  | none => exact h
  | some x => obtain ⟨sid, cl⟩ := x; exact refF_cache_one cfg al F sid (.value cl) n k h

theorem refF_conditionOf (al : List (Str × Val)) (F : Nat) (c : Option Tok) (n : Node) (k : RM Unit)
    (h : RefF F (fun G => eval cfg al G n) k) :
    RefF F (fun G => eval cfg al G (optCond c n)) (conditionOf cfg al c k) := by
  unfold optCond conditionOf
  cases c with
  | none => exact h
  | some cl => exact refF_condition cfg al F _ n none k (pure ()) h rfl

theorem refF_caseOf (al : List (Str × Val)) (F : Nat) (cs : Option (Nat × Tok)) (n : Node) (k : List (Str × Val) → RM Unit)
    (h : ∀ al', RefF F (fun G => eval cfg al' G n) (k al')) :
    RefF F (fun G => eval cfg al G (optCase cs n)) (caseOf cfg al cs k) := by
  unfold optCase caseOf
  cases cs with
  | none => exact h al
  | some x =>
    obtain ⟨sw, cl⟩ := x
    unfold caseNode
    have key := refF_define_alias cfg al F (lit "default") .marker
      (.condition (caseCond sw cl) (.cancel [sw] n) none)
      (fun v => do
        let c ← liftX (fun env => evalCond cfg ((lit "default", v) :: al) env 16 (caseCond sw cl))
        let b ← vTruthy cfg c
        if b then (do setCache sw (Val.excClass "<CANCEL>"); k ((lit "default", v) :: al)) else pure ())
      (fun v => refF_condition cfg _ F _ _ none _ (pure ()) (refF_cancel_one cfg _ F sw n _ (h _)) rfl)
    rw [enVal_marker_eq, rm_pure_bind] at key
    exact key

theorem refF_loop (al : List (Str × Val)) (F : Nat) (key : Str) (names : List Tok) (loc : Bool) (ws : Str) (n : Node)
    (k : RM Unit) (h : RefF F (fun G => eval cfg al G n) k) :
    ∀ (items : List Val) (rem : Nat),
      RefF F (fun G => evalRepeat cfg al G key names loc ws n items rem) (loopOf key names loc ws k items rem) := by
  intro items
  induction items with
  | nil =>
    intro rem G hG
    cases G with
    | zero => simp only [evalRepeat]; exact le_unsupported _ _
    | succ G => simp only [evalRepeat, loopOf]; exact le_refl _
  | cons item rest ih =>
    intro rem G hG
    cases G with
    | zero => simp only [evalRepeat]; exact le_unsupported _ _
    | succ G =>
      simp only [evalRepeat, loopOf]
      have := h G (by omega)
      have := ih (rem - 1) G (by omega)
      rcases names with _ | ⟨nm, _ | ⟨nm2, more⟩⟩ <;> (try simp only []) <;> le
      all_goals first | exact le_unsupported _ _ | (exfalso; simp_all; done)

theorem refF_repeatOf (al : List (Str × Val)) (F : Nat) (rp : Option (Nat × DefineSpec × Str)) (n : Node) (k : RM Unit)
    (h : RefF F (fun G => eval cfg al G n) k) :
    RefF F (fun G => eval cfg al G (optRepeat rp n)) (repeatOf cfg al rp k) := by
  unfold optRepeat repeatOf
  cases rp with
  | none => exact h
  | some x =>
    obtain ⟨rid, d, ws⟩ := x
    intro G hG
    cases G with
    | zero => simp only [eval]; exact le_unsupported _ _
    | succ G =>
      obtain ⟨ctx, names, expr⟩ := d
      simp only [eval]
      have hl := fun key items rem => refF_loop cfg al F key names (ctx == .local_) ws n k h items rem G (by omega)
      rcases names with _ | ⟨nm, _ | ⟨nm2, more⟩⟩ <;> (try simp only []) <;> le
      all_goals first | exact hl _ _ _ | exact le_unsupported _ _ | (exfalso; simp_all; done)

theorem refF_definesOf (F : Nat) (n : Node) (k : List (Str × Val) → RM Unit)
    (h : ∀ al', RefF F (fun G => eval cfg al' G n) (k al')) :
    ∀ (assigns : List Assign) (al : List (Str × Val)) (bk : List (Str × Option Val)),
      RefF F (fun G => evalDefine cfg al G assigns n bk) (definesOf cfg assigns al bk k) := by
  intro assigns
  induction assigns with
  | nil =>
    intro al bk G hG
    cases G with
    | zero => simp only [evalDefine]; exact le_unsupported _ _
    | succ G =>
      simp only [evalDefine, definesOf]
      have := h al G (by omega)
      le
  | cons a rest ih =>
    intro al bk G hG
    cases G with
    | zero => simp only [evalDefine]; exact le_unsupported _ _
    | succ G =>
      cases a with
      | alias name e =>
        simp only [evalDefine, definesOf]
        exact le_bind_right _ _ _ (fun v => ih _ _ G (by omega))
      | assign names e loc =>
        simp only [evalDefine, definesOf]
        have hi := fun al bk => ih al bk G (by omega)
        rcases names with _ | ⟨nm, _ | ⟨nm2, more⟩⟩ <;> (try simp only []) <;> le
        all_goals first | exact hi _ _ | exact le_unsupported _ _ | (exfalso; simp_all; done)

theorem refF_define (al : List (Str × Val)) (F : Nat) (assigns : List Assign) (n : Node) (k : List (Str × Val) → RM Unit)
    (h : ∀ al', RefF F (fun G => eval cfg al' G n) (k al')) :
    RefF F (fun G => eval cfg al G (.define assigns n)) (definesOf cfg assigns al [] k) := by
  intro G hG
  cases G with
  | zero => simp only [eval]; exact le_unsupported _ _
  | succ G => simp only [eval]; exact refF_definesOf cfg F n k h assigns al [] G (by omega)

end layers

/-! ## what the builder assembles -/

/-- the nesting of the statement nodes of an element of the fragment: definitions outermost, then `tal:case`,
`tal:condition`, `tal:repeat`, `tal:switch` (the order `wrapOrder`, observed on the real builder: `C01_wrapOrder_observed`) -/
theorem wrappers_shape (p : ElemStmts) (ip : InnerSpec) (h : talOnly p ip) (inner : Node) :
    applyWrappers p.wrappers wrapOrder inner =
      .define p.assigns (optCase p.case_ (optCond p.condition (optRepeat p.repeat_ (optSwitch p.switch inner)))) := by
  obtain ⟨_, _, hds, hdo, hcx, htg, _, _, _, _⟩ := h
  unfold ElemStmts.wrappers
  rw [hds, hdo, hcx, htg]
  rcases p.case_ with _ | ⟨sw, ccl⟩ <;> rcases p.condition with _ | cl <;> rcases p.repeat_ with _ | ⟨rid, d, ws⟩ <;>
    rcases p.switch with _ | ⟨sid, scl⟩ <;> rfl

/-- for an element of the fragment `elementPost` always succeeds, and its node is the statement wrappers around
`InnerSpec.node` of the children's nodes -/
theorem elementPost_tal (p : ElemStmts) (ip : InnerSpec) (h : talOnly p ip) (body : List Node) (st : BState) :
    ∃ st', elementPost p body st = .ok (applyWrappers p.wrappers wrapOrder (ip.node (.seq body)), st') := by
  obtain ⟨hk, _, _, _, _, _, hn, hf, hm, ho⟩ := h
  unfold elementPost
  simp only [hk, hn, hf, hm, ho, bind, bModify, bGet, pure]
  by_cases hu : p.useMacroNonEmpty = true
  · simp only [hu, if_true]; exact ⟨_, rfl⟩
  · simp only [hu, Bool.false_eq_true, if_false]; exact ⟨_, rfl⟩

/-- **C01 (an element renders as the statement semantics prescribes)**: for every element of the TAL fragment
(`tal:define`, `tal:case`, `tal:condition`, `tal:repeat`, `tal:switch`, `tal:content` | `tal:replace`, `tal:omit-tag`,
`tal:attributes`; no METAL, i18n or `tal:on-error` on the element itself — its children are arbitrary), every list of
child nodes, alias list, scope and state: whenever the interpreter reaches a verdict on the node the builder assembles
(`elementPost`), with whatever fuel `G`, `specElement` reaches the same verdict — the same output, scope, logs, or the
same exception — the children rendered by `evalList`.  So: definitions first, then the guards, then repetition, then
replacement, tag omission with the attributes, and content. -/
theorem C01_element_semantics (cfg : ECfg) (p : ElemStmts) (ip : InnerSpec) (h : talOnly p ip) (body : List Node)
    (st st' : BState) (node : Node) (hb : elementPost p body st = .ok (node, st'))
    (al : List (Str × Val)) (F G : Nat) (hG : G ≤ F) :
    Le (eval cfg al G node) (specElement cfg F p ip (fun al' => evalList cfg al' F body) al) := by
  obtain ⟨st1, hp⟩ := elementPost_tal p ip h body st
  rw [hp] at hb
  have hnode : node = applyWrappers p.wrappers wrapOrder (ip.node (.seq body)) := by
    injection hb with hb; injection hb with h1 _; exact h1.symm
  subst hnode
  rw [wrappers_shape p ip h]
  unfold specElement
  exact refF_define cfg al F p.assigns _ _ (fun al1 =>
    refF_caseOf cfg al1 F p.case_ _ _ (fun al2 =>
      refF_conditionOf cfg al2 F p.condition _ _
        (refF_repeatOf cfg al2 F p.repeat_ _ _
          (refF_switchOf cfg al2 F p.switch _ _
            (refF_innerOf cfg al2 F ip h.2.1 (.seq body) _
              (fun al' => refF_seq cfg al' F body _ (refF_evalList cfg al' F body))))))) G hG

/-- … in plain words, for normal completion: the state the interpreter ends in is the state the semantics prescribes -/
theorem C01_element_ok (cfg : ECfg) (p : ElemStmts) (ip : InnerSpec) (h : talOnly p ip) (body : List Node)
    (st st' : BState) (node : Node) (hb : elementPost p body st = .ok (node, st'))
    (al : List (Str × Val)) (F G : Nat) (hG : G ≤ F) (s s' : RState) (he : eval cfg al G node s = .ok () s') :
    specElement cfg F p ip (fun al' => evalList cfg al' F body) al s = .ok () s' := by
  rw [(C01_element_semantics cfg p ip h body st st' node hb al F G hG).at_ s (by intro w hw; rw [he] at hw; cases hw), he]

/-- … and for an exception -/
theorem C01_element_raised (cfg : ECfg) (p : ElemStmts) (ip : InnerSpec) (h : talOnly p ip) (body : List Node)
    (st st' : BState) (node : Node) (hb : elementPost p body st = .ok (node, st'))
    (al : List (Str × Val)) (F G : Nat) (hG : G ≤ F) (s s' : RState) (ex : Exc) (he : eval cfg al G node s = .raised ex s') :
    specElement cfg F p ip (fun al' => evalList cfg al' F body) al s = .raised ex s' := by
  rw [(C01_element_semantics cfg p ip h body st st' node hb al F G hG).at_ s (by intro w hw; rw [he] at hw; cases hw), he]

/-- the hypotheses are met: an element with `tal:condition`, `tal:repeat`, `tal:content` and `tal:omit-tag` -/
example : ∃ (p : ElemStmts) (ip : InnerSpec), talOnly p ip ∧ p.condition.isSome ∧ p.repeat_.isSome ∧ ip.content.isSome ∧
    ip.omitExpr.isSome :=
  let t : Tok := { str := lit "x", pos := 0 }
  let d : DefineSpec := { ctx := DefCtx.local_, names := [t], expr := t }
  let ip : InnerSpec := { content := some (1, t, false, false), translate := none, startTag := .text (lit "<p>"),
                          endTag := some (.text (lit "</p>")), omitAlways := false, omitExpr := some (2, t), replace := none }
  let p : ElemStmts := { (default : ElemStmts) with kind := InnerKind.tal ip, repeat_ := some (3, d, []), condition := some t }
  ⟨p, ip, ⟨rfl, rfl, rfl, rfl, rfl, rfl, rfl, rfl, rfl, rfl⟩, rfl, rfl, rfl, rfl⟩

end ChamVerif

import ChamVerif.Eval
/-! # C06 — what the parts of an interpolated text render to -/

namespace ChamVerif.C06Parts
open ChamVerif

/-- **C06 (what the parts render to)**: a literal part is copied, an expression part is replaced by the converted value of
exactly that expression, and the rest follows — `partsText` is the concatenation, in order -/
theorem C06_parts_text_lit (cfg : ECfg) (al : List (Str × Val)) (env : Env) (f : Nat) (s : Str) (rest : List IPart)
    (esc : Esc) (d : Option Str) (lf : Bool) :
    partsText cfg al env (f + 1) (.lit s :: rest) esc d lf =
      (do let b ← partsText cfg al env f rest esc d lf; pure (s ++ b)) := by
  simp only [partsText, bind, pure]

theorem C06_parts_text_expr (cfg : ECfg) (al : List (Str × Val)) (env : Env) (f : Nat) (e : TExpr) (tok : Tok) (text : Str)
    (rest : List IPart) (esc : Esc) (d : Option Str) (lf : Bool) :
    partsText cfg al env (f + 1) (.expr e tok text :: rest) esc d lf =
      (do xSetToken tok
          let v ← evalT cfg al env f e esc d
          let t ← convPartX cfg env esc d lf v
          let b ← partsText cfg al env f rest esc d lf
          pure (t.getD [] ++ b)) := by
  simp only [partsText, bind, pure]

end ChamVerif.C06Parts

import ChamVerif.Eval
/-! # C06 — what the parts of an interpolated text render to -/

namespace ChamVerif.C06Parts
open ChamVerif

/-- **C06 (what the parts render to)**: a literal part is copied, an expression part is replaced by the converted value of
exactly that expression, and the rest follows — `partsText` is the concatenation, in order -/
theorem C06_parts_text_lit (cfg : ECfg) (al : List (Str × Val)) (env : Env) (f : Nat) (s : Str) (rest : List IPart)
    (esc : Esc) (d : Option Str) (lf : Bool) :
    partsText cfg al env (f + 1) (.lit s :: rest) esc d lf =
      (do let b ← partsText cfg al env f rest esc d lf; pure (s ++ b)) := by
  simp only [partsText, bind, pure]

theorem C06_parts_text_expr (cfg : ECfg) (al : List (Str × Val)) (env : Env) (f : Nat) (e : TExpr) (tok : Tok) (text : Str)
    (rest : List IPart) (esc : Esc) (d : Option Str) (lf : Bool) :
    partsText cfg al env (f + 1) (.expr e tok text :: rest) esc d lf =
      (do xSetToken tok
          let v ← evalT cfg al env f e esc d
          let t ← convPartX cfg env esc d lf v
          let b ← partsText cfg al env f rest esc d lf
          pure (t.getD [] ++ b)) := by
  simp only [partsText, bind, pure]

/-- **C06 (what `text ${e} text` renders to)**: the three parts render to the first literal, the converted value of the
expression — evaluated once, with `__token` set to it first — and the second literal, concatenated -/
theorem C06_three_parts_render (cfg : ECfg) (al : List (Str × Val)) (env : Env) (f : Nat) (pre post : Str) (e : TExpr) (tok : Tok)
    (text : Str) (esc : Esc) (d : Option Str) (lf : Bool) :
    partsText cfg al env (f + 4) [.lit pre, .expr e tok text, .lit post] esc d lf =
      (do xSetToken tok
          let v ← evalT cfg al env (f + 2) e esc d
          let t ← convPartX cfg env esc d lf v
          pure (pre ++ (t.getD [] ++ (post ++ [])))) := by
  rw [C06_parts_text_lit, C06_parts_text_expr, C06_parts_text_lit]
  simp only [partsText, bind, pure]
  funext x
  cases xSetToken tok x with
  | ok u x1 =>
    simp only
    cases evalT cfg al env (f + 2) e esc d x1 with
    | ok v x2 =>
      simp only
      cases convPartX cfg env esc d lf v x2 with
      | ok t x3 => rfl
      | raised ex x3 => rfl
      | unsupported w => rfl
    | raised ex x2 => rfl
    | unsupported w => rfl
  | raised ex x1 => rfl
  | unsupported w => rfl

end ChamVerif.C06Parts

namespace ChamVerif.C06Parts
open ChamVerif

/-- **C06 (the value of an interpolated text)**: when the Interpolator splits the text of an interpolation node into
`pre`, the expression `e` and `post` (`C06_text_expr_text`), the node's value is `pre ++ value ++ post`, where `value` is the
converted value of `e`, evaluated once with `__token` pointing at it (no implicit translation) -/
theorem C06_interp_value (cfg : ECfg) (al : List (Str × Val)) (env : Env) (f : Nat) (tok tokE : Tok) (pre post text : Str) (te : TExpr)
    (esc : Esc) (d : Option Str)
    (hparts : compileInterp cfg.tc 64 tok true cfg.tc.decodeInterp = .ok [.lit pre, .expr te tokE text, .lit post]) :
    evalEN cfg al env (f + 1) (.interp tok esc d true true false) =
      (do xSetToken tok
          xSetToken tokE
          let v ← evalT cfg al env 61 te esc d
          let t ← convPartX cfg env esc d true v
          pure (Val.str (pre ++ (t.getD [] ++ (post ++ []))))) := by
  simp only [evalEN, hparts, Bool.false_and, Bool.false_eq_true, if_false, bind, pure]
  funext x
  cases hx : xSetToken tok x with
  | ok u x1 =>
    simp only [evalParts]
    have h3 := C06_three_parts_render cfg al env 59 pre post te tokE text esc d true
    simp only [bind, pure] at h3
    rw [h3]
    simp only [bind, pure, if_true]
    cases xSetToken tokE x1 with
    | ok u2 x2 =>
      simp only
      cases evalT cfg al env (59 + 2) te esc d x2 with
      | ok v x3 =>
        simp only
        cases convPartX cfg env esc d true v x3 with
        | ok t x4 => rfl
        | raised ex x4 => rfl
        | unsupported w => rfl
      | raised ex x3 => rfl
      | unsupported w => rfl
    | raised ex x2 => rfl
    | unsupported w => rfl
  | raised ex x1 => rfl
  | unsupported w => rfl

end ChamVerif.C06Parts

namespace ChamVerif.C06Parts
open ChamVerif

/-- a string value inserted at a site: escaped for that site, and nothing is offered to the translation function -/
theorem convPartX_str (cfg : ECfg) (env : Env) (site : Site) (esc : Esc) (d : Option Str) (lf : Bool) (s : Str) (x : XState)
    (hesc : escQ esc = some (site.q, site.qe)) (hne : esc ≠ .emptyQ) (hlf : lf = true ∨ s ≠ []) :
    convPartX cfg env esc d lf (.str s) x = .ok (some (site.quote s)) x := by
  have he : (esc == Esc.emptyQ) = false := by cases esc <;> first | rfl | exact absurd rfl hne
  have hct : convertTextX cfg env esc d (.str s) x = .ok (some (site.quote s)) x := by
    simp only [convertTextX, he, Bool.false_eq_true, if_false, bind, offerCall, toQIn, pure, xLiftR, convertText, hesc, quoteVal,
      Site.quote]
  cases lf with
  | true => simp only [convPartX, if_true, hct]
  | false =>
    have hs : s ≠ [] := by rcases hlf with h | h; exact absurd h (by simp); exact h
    have htr : Val.truthy cfg.tab (.str s) = .ok true := by
      cases s with
      | nil => exact absurd rfl hs
      | cons a r => rfl
    simp only [convPartX, Bool.false_eq_true, if_false, bind, xLiftR, htr, if_true, hct]

/-- **C06 ∘ C02 (an interpolated string is inserted escaped)**: in element text (`esc = .text`), when the expression of
`pre ${e} post` evaluates to the string `s`, the node's value is `pre ++ escape(s) ++ post` where `escape` is the text-site
escaping of C02 (`C02_no_raw`, `C02_roundtrip` speak about it) -/
theorem C06_interp_text_escaped (cfg : ECfg) (al : List (Str × Val)) (env : Env) (f : Nat) (tok tokE : Tok) (pre post text : Str) (te : TExpr)
    (s : Str) (x x1 : XState)
    (hparts : compileInterp cfg.tc 64 tok true cfg.tc.decodeInterp = .ok [.lit pre, .expr te tokE text, .lit post])
    (hev : evalT cfg al env 61 te .text none { x with token := some ((Tok.strip tokE).pos, (Tok.strip tokE).str.length) } = .ok (.str s) x1) :
    evalEN cfg al env (f + 1) (.interp tok .text none true true false) x =
      .ok (.str (pre ++ (Site.text.quote s ++ (post ++ [])))) x1 := by
  rw [C06_interp_value cfg al env f tok tokE pre post text te .text none hparts]
  simp only [bind, pure, xSetToken, hev,
    convPartX_str cfg env Site.text .text none true s x1 rfl (by decide) (Or.inl rfl), Option.getD]

end ChamVerif.C06Parts

import ChamVerif.Lex
import ChamVerif.Parse
import ChamProofs.ReLemmas
/-! # C03 (tokenizer clause) — for every input string whatsoever the token stream
concatenates back to the input with contiguous source positions.

The theorems are about `Gen.XML_SPE`, the regex regenerated from `tokenize.re_xml_spe` on
every run; what is used of it is only its *shape* `[^<]+ | <T` with `T` unable to fail. -/
namespace ChamVerif

/-- recogniser of the shape `[^c]+ | c T` -/
def speTail (c : Nat) : Re → Option Re
  | .alt (.rep true 1 none (.cls true [.ch d])) (.seq (.chr e) T) => if d = c ∧ e = c then some T else none
  | _ => none

theorem speTail_shape (c : Nat) (r T : Re) (h : speTail c r = some T) : r = speShape c T := by
  unfold speTail at h
  split at h
  · split at h
    · rename_i hde; obtain ⟨hd, he⟩ := hde
      simp at h; subst h; subst hd; subst he; rfl
    · simp at h
  · simp at h

/-- decidable well-formedness of a tokenizer regex -/
def tokenizerOK (r : Re) : Bool :=
  match speTail 60 r with
  | some T => alwaysSucceeds T
  | none => false

/-- the regex extracted from the current source has the shape (checked by evaluation) -/
theorem xml_spe_ok : tokenizerOK Gen.XML_SPE = true := by decide +kernel

theorem spe_end (u : Uni) (c : Nat) (T : Re) (s : Array Nat) :
    matchAt u s (speShape c T) s.size = none := by
  unfold matchAt speShape
  rw [den_alt, den_rep, den_seq, den_chr]
  have : s.size - s.size + 1 + 1 = 1 + 1 := by omega
  simp only [this]
  simp [repM, repMore, canMore, den]

theorem tokenizerOK_covering (u : Uni) (r : Re) (h : tokenizerOK r = true) (s : Array Nat) :
    Covering u s r ∧ matchAt u s r s.size = none := by
  unfold tokenizerOK at h
  split at h
  · rename_i T hT
    have := speTail_shape 60 r T hT
    subst this
    exact ⟨fun i hi => spe_total u 60 T h s i hi, spe_end u 60 T s⟩
  · simp at h

/-- position chain of a token list -/
def Contiguous : Nat → List Tok → Prop
  | _, [] => True
  | p, t :: ts => t.pos = p ∧ t.str ≠ [] ∧ Contiguous (p + t.str.length) ts

theorem iterXmlWith_eq_pieces (r : Re) (s : Str) :
    iterXmlWith r s = (pieces s.toArray (finditer Gen.uni s.toArray r)).map (fun p => { str := p.1, pos := p.2 }) := by
  simp [iterXmlWith, pieces, subStr, Function.comp_def]

theorem contig_of_pieces (l : List (List Nat × Nat)) : ∀ p, Contig p l →
    Contiguous p (l.map (fun q => { str := q.1, pos := q.2 })) := by
  induction l with
  | nil => intro p _; trivial
  | cons a l ih =>
    intro p h
    obtain ⟨w, a⟩ := a
    simp only [Contig] at h
    exact ⟨h.1, h.2.1, ih _ h.2.2⟩

/-- **Token stream concatenates back to the input** — every tokenizer regex of the shape, every string. -/
theorem tokens_concat_of_ok (r : Re) (h : tokenizerOK r = true) (s : Str) :
    ((iterXmlWith r s).map (·.str)).flatten = s := by
  obtain ⟨hc, he⟩ := tokenizerOK_covering Gen.uni r h s.toArray
  have := (finditer_cover Gen.uni s.toArray r hc he).1
  rw [iterXmlWith_eq_pieces]
  simpa [Function.comp_def] using this

theorem tokens_contiguous_of_ok (r : Re) (h : tokenizerOK r = true) (s : Str) :
    Contiguous 0 (iterXmlWith r s) := by
  obtain ⟨hc, he⟩ := tokenizerOK_covering Gen.uni r h s.toArray
  have := (finditer_cover Gen.uni s.toArray r hc he).2
  rw [iterXmlWith_eq_pieces]
  exact contig_of_pieces _ 0 this

/-- **C03 (tokenizer)**: for the regex in /repo today and every string `s`. -/
theorem C03_tokens_concat (s : Str) : ((iterXml s).map (·.str)).flatten = s :=
  tokens_concat_of_ok Gen.XML_SPE xml_spe_ok s

theorem C03_tokens_contiguous (s : Str) : Contiguous 0 (iterXml s) :=
  tokens_contiguous_of_ok Gen.XML_SPE xml_spe_ok s

/-- contiguity + concatenation ⇒ every token is the source slice at its position -/
theorem anchored_of_contiguous (src : Str) : ∀ (ts : List Tok) (p : Nat),
    Contiguous p ts → (ts.map (·.str)).flatten = src.drop p → ∀ t ∈ ts, Anchored src t := by
  intro ts
  induction ts with
  | nil => intro p _ _ t ht; cases ht
  | cons a ts ih =>
    intro p hc hf t ht
    obtain ⟨hp, _, hrest⟩ := hc
    simp only [List.map_cons, List.flatten_cons] at hf
    rcases List.mem_cons.mp ht with h | h
    · subst h
      unfold Anchored
      rw [hp, ← hf]; simp
    · apply ih (p + a.str.length) hrest _ t h
      have := congrArg (List.drop a.str.length) hf
      simpa [List.drop_drop, Nat.add_comm] using this

theorem C03_tokens_anchored (s : Str) : ∀ t ∈ iterXml s, Anchored s t :=
  anchored_of_contiguous s (iterXml s) 0 (C03_tokens_contiguous s) (by simpa using C03_tokens_concat s)

/-- non-vacuity: the hypotheses are met by the live regex on a non-trivial string -/
example : (iterXml (Str.ofString "<a b='1'>x</a>")).length = 3 := by decide +kernel

end ChamVerif

/-! ## Dissecting a tag loses nothing when the pieces are contiguous -/
namespace ChamVerif

theorem contigE_ge : ∀ (xs : List Tok) (p e : Nat), contigE p xs = some e → e ≥ p := by
  intro xs
  induction xs with
  | nil => intro p e h; simp [contigE] at h; omega
  | cons x xs ih =>
    intro p e h
    simp only [contigE] at h
    split at h
    · exact ih _ _ h
    · split at h
      · have := ih _ _ h; omega
      · simp at h

theorem contig_flatten (t : Tok) : ∀ (xs : List Tok) (p e : Nat), t.pos ≤ p →
    xs.all (anchoredIn t) = true → contigE p xs = some e →
    (xs.map (·.str)).flatten = (t.str.drop (p - t.pos)).take (e - p) := by
  intro xs
  induction xs with
  | nil => intro p e _ _ h; simp [contigE] at h; subst h; simp
  | cons x xs ih =>
    intro p e hp ha h
    simp only [List.all_cons, Bool.and_eq_true] at ha
    simp only [contigE] at h
    split at h
    · rename_i hemp
      have : x.str = [] := by simpa using hemp
      simp only [List.map_cons, List.flatten_cons, this, List.nil_append]
      exact ih p e hp ha.2 h
    · rename_i hne
      split at h
      · rename_i hpos
        have hge := contigE_ge _ _ _ h
        have hanch := ha.1
        unfold anchoredIn at hanch
        simp only [hne, Bool.false_or, Bool.and_eq_true, decide_eq_true_eq, beq_iff_eq] at hanch
        have ih' := ih (p + x.str.length) e (by omega) ha.2 h
        have hx : x.str = (t.str.drop (p - t.pos)).take x.str.length := by
          rw [← hpos]; exact hanch.2.symm
        simp only [List.map_cons, List.flatten_cons]
        have h1 : p + x.str.length - t.pos = x.str.length + (p - t.pos) := by omega
        have h2 : e - p = x.str.length + (e - (p + x.str.length)) := by omega
        rw [ih', h1, h2, List.take_add, ← List.drop_drop]
        congr 1
        simp [List.drop_drop, Nat.add_comm]
      · simp at h

theorem pieces_flatten (g : Tag) (s : Tok) (hs : g.suffix = some s) :
    (g.pieces.map (·.str)).flatten = g.reassemble := by
  unfold Tag.pieces Tag.reassemble
  simp only [hs, List.map_append, List.map_cons, List.map_nil, List.flatten_append, List.flatten_cons,
    List.flatten_nil, List.append_nil, Option.map_some, Option.getD_some, List.append_assoc,
    List.cons_append, List.nil_append]
  congr 2
  · congr 1
    induction g.attrs with
    | nil => simp
    | cons a as ih =>
      simp only [List.map_cons, List.flatten_cons, List.map_append, List.flatten_append, ih]
      simp [Attr.pieces, Attr.text]

/-- **C03 (dissection)**: whenever the decidable check `dissectOK` holds for a tag and its
dissection, the emitters' concatenation of the pieces is the tag as written. -/
theorem C03_dissect (t : Tok) (g : Tag) (h : g.dissectOK t = true) : g.reassemble = t.str := by
  unfold Tag.dissectOK at h
  simp only [Bool.and_eq_true, beq_iff_eq] at h
  obtain ⟨⟨hs, ha⟩, hc⟩ := h
  obtain ⟨s, hs'⟩ := Option.isSome_iff_exists.mp hs
  rw [← pieces_flatten g s hs']
  have := contig_flatten t g.pieces t.pos _ (Nat.le_refl _) ha hc
  simpa using this

/-- non-vacuity: a real tag with three attribute styles satisfies the check -/
example : ((matchTag { str := lit "<a b=\"1\" c='2' d=3 e>", pos := 7 }).map
    (fun g => g.dissectOK { str := lit "<a b=\"1\" c='2' d=3 e>", pos := 7 })) = some true := by decide +kernel

end ChamVerif

import ChamProofs.Props.C05Eval
import ChamProofs.Props.C05Global
/-! # C05 on the interpreter: any list of local definitions, any tuple of loop variables

`C05_local_define_restores` and `C05_repeat_restores` speak about one name.  Here: a `tal:define` with any number of
clauses — aliases, single names, tuples, the same name defined more than once — and a `tal:repeat` with a tuple of
loop variables.  When the element is finished every name it defined locally is bound to what it was bound to before
the element (or undefined again).

The backups are a list that is restored front to back, so what counts for a name is its *last* entry (`lastFor`);
`restore_get` says what a restore leaves behind, `evalDefine_acc` that the last entry for every defined name is the
binding the element started with. -/
namespace ChamVerif
open ChamVerif.Root

/-- the entry of a backup list that is restored last for `k` -/
def lastFor (k : Str) : List (Str × Option Val) → Option (Option Val)
  | [] => none
  | (k', v) :: rest =>
    match lastFor k rest with
    | some r => some r
    | none => if k' = k then some v else none

theorem lastFor_append (k : Str) (a b : List (Str × Option Val)) :
    lastFor k (a ++ b) = match lastFor k b with | some r => some r | none => lastFor k a := by
  induction a with
  | nil => simp only [List.nil_append, lastFor]; cases lastFor k b <;> rfl
  | cons p a ih =>
    obtain ⟨k', v⟩ := p
    simp only [List.cons_append, lastFor, ih]
    cases lastFor k b <;> rfl

theorem lastFor_map_val (k : Str) (g : Str → Option Val) : ∀ (l : List Tok) (r : Option Val),
    lastFor k (l.map (fun nm => (nm.str, g nm.str))) = some r → r = g k := by
  intro l
  induction l with
  | nil => intro r hr; simp [lastFor] at hr
  | cons a l ihl =>
    intro r hr'
    simp only [List.map_cons, lastFor] at hr'
    cases hl : lastFor k (l.map (fun nm => (nm.str, g nm.str))) with
    | some r2 => rw [hl] at hr'; simp only [Option.some.injEq] at hr'; subst hr'; exact ihl r2 hl
    | none =>
      rw [hl] at hr'
      by_cases ha : a.str = k
      · simp only [ha, if_true, Option.some.injEq] at hr'; rw [← hr']
      · simp [ha] at hr'

theorem lastFor_map_none (k : Str) (g : Str → Option Val) : ∀ (l : List Tok), k ∉ l.map (·.str) →
    lastFor k (l.map (fun nm => (nm.str, g nm.str))) = none := by
  intro l
  induction l with
  | nil => intro _; rfl
  | cons a l ih =>
    intro h
    simp only [List.map_cons, List.mem_cons, not_or] at h
    simp only [List.map_cons, lastFor, ih h.2]
    have : ¬ a.str = k := fun e => h.1 e.symm
    simp [this]

theorem lastFor_map_mem (k : Str) (g : Str → Option Val) : ∀ (l : List Tok), k ∈ l.map (·.str) →
    lastFor k (l.map (fun nm => (nm.str, g nm.str))) = some (g k) := by
  intro l
  induction l with
  | nil => intro h; simp at h
  | cons a l ih =>
    intro h
    simp only [List.map_cons, lastFor]
    cases hl : lastFor k (l.map (fun nm => (nm.str, g nm.str))) with
    | some r => simp only [Option.some.injEq]; exact lastFor_map_val k g l r hl
    | none =>
      have hk : a.str = k := by
        simp only [List.map_cons, List.mem_cons] at h
        rcases h with h | h
        · exact h.symm
        · have := ih h; rw [hl] at this; cases this
      simp [hk]

/-- one entry of a backup list, applied -/
def applyBk (e : Env) : Str × Option Val → Env
  | (k, some x) => { e with own := (k, x) :: e.own.filter (·.1 != k) }
  | (k, none) => { e with own := e.own.filter (·.1 != k) }

theorem restore_cons (p : Str × Option Val) (rest : List (Str × Option Val)) (s : RState) :
    restore (p :: rest) s = restore rest { s with env := applyBk s.env p } := by
  obtain ⟨k, v⟩ := p
  cases v <;> rfl

theorem get_applyBk_ne (e : Env) (k k' : Str) (v : Option Val) (h : k ≠ k') : (applyBk e (k', v)).get k = e.get k := by
  cases v with
  | some x => simp only [applyBk, Env.get, lookup_cons_ne _ k' k x h, lookup_filter_ne _ k' k h]
  | none => simp only [applyBk, Env.get, lookup_filter_ne _ k' k h]

/-- **what a restore leaves behind**: for every name, its last entry in the list decides — the saved value, "was not
bound in this scope" (then the root dictionary shows through), or no entry (the binding stays as it is) -/
theorem restore_get : ∀ (bk : List (Str × Option Val)) (s : RState), ∃ s', restore bk s = .ok () s' ∧ rootOf s' = rootOf s ∧
    ∀ k, s'.env.get k = match lastFor k bk with
      | some (some x) => some x
      | some none => lookupAssoc s.env.root k
      | none => s.env.get k := by
  intro bk
  induction bk with
  | nil => intro s; exact ⟨s, rfl, rfl, fun k => rfl⟩
  | cons p rest ih =>
    intro s
    obtain ⟨s', h1, h2, h3⟩ := ih { s with env := applyBk s.env p }
    have hroot : (applyBk s.env p).root = s.env.root ∧ (applyBk s.env p).hasRoot = s.env.hasRoot := by
      obtain ⟨k', v⟩ := p; cases v <;> exact ⟨rfl, rfl⟩
    refine ⟨s', by rw [restore_cons]; exact h1, ?_, ?_⟩
    · rw [h2]; simp only [rootOf, hroot.1, hroot.2]
    · intro k
      rw [h3 k]
      obtain ⟨k', v⟩ := p
      simp only [lastFor]
      cases hl : lastFor k rest with
      | some r => cases r <;> simp only [hroot.1]
      | none =>
        by_cases hk : k' = k
        · subst hk
          cases v with
          | some x => simp only [if_true]; exact get_after_set _ _ _
          | none => simp only [if_true, applyBk, Env.get, lookup_filter_self]
        · simp only [hk, if_false]
          exact get_applyBk_ne _ _ _ _ (fun e => hk e.symm)

/-- restoring a list whose last entry for `k` is `k`'s binding in `s`, from a state with `s`'s root dictionary, gives
`k` that binding back -/
theorem restore_last (bk : List (Str × Option Val)) (k : Str) (s s1 s' : RState) (hr : rootOf s1 = rootOf s)
    (hl : lastFor k bk = some (s.env.get k)) (h : restore bk s1 = .ok () s') : s'.env.get k = s.env.get k := by
  obtain ⟨s2, h1, _, h3⟩ := restore_get bk s1
  rw [h1] at h; cases h
  rw [h3 k, hl]
  have hroot : s1.env.root = s.env.root := by
    have := hr; simp only [rootOf, Prod.mk.injEq] at this; exact this.1
  cases hg : s.env.get k with
  | some x => rfl
  | none =>
    simp only [hroot]
    simp only [Env.get] at hg
    cases ho : lookupAssoc s.env.own k with
    | some y => simp [ho] at hg
    | none => simpa [ho] using hg

/-! ## what an assignment touches -/

theorem bindOk5 {α β} (m : RM α) (F : α → RM β) (s : RState) (b : β) (s' : RState) (h : (m >>= F) s = .ok b s') :
    ∃ a s1, m s = .ok a s1 ∧ F a s1 = .ok b s' := by
  simp only [bind] at h
  cases hms : m s with
  | raised ex s1 => simp [hms] at h
  | unsupported w => simp [hms] at h
  | ok a s1 => simp only [hms] at h; exact ⟨a, s1, rfl, h⟩

theorem enVal_env (cfg : ECfg) (al : List (Str × Val)) (e : EN) (s : RState) (v : Val) (s1 : RState)
    (h : enVal cfg al e s = .ok v s1) : s1.env = s.env := by
  unfold enVal liftX at h
  cases hm : evalEN cfg al s.env 64 e s.x with
  | ok b x' => simp only [hm] at h; cases h; rfl
  | raised e x' => simp [hm] at h
  | unsupported w => simp [hm] at h

theorem setVar_run (k : Str) (v : Val) (s : RState) :
    setVar k v s = .ok () { s with env := applyBk s.env (k, some v) } := rfl

theorem forM_cons' {α} (f : α → RM Unit) (a : α) (l : List α) : (a :: l).forM f = (f a >>= fun _ => l.forM f) := rfl

theorem setVars_get : ∀ (pairs : List (Tok × Val)) (s s' : RState),
    pairs.forM (fun (p : Tok × Val) => setVar p.1.str p.2) s = .ok () s' →
    rootOf s' = rootOf s ∧ ∀ k, (∀ p ∈ pairs, p.1.str ≠ k) → s'.env.get k = s.env.get k := by
  intro pairs
  induction pairs with
  | nil => intro s s' h; cases h; exact ⟨rfl, fun _ _ => rfl⟩
  | cons p rest ih =>
    intro s s' h
    rw [forM_cons'] at h
    obtain ⟨_, s1, h1, h2⟩ := bindOk5 _ _ _ _ _ h
    rw [setVar_run] at h1
    cases h1
    obtain ⟨hr, hg⟩ := ih _ _ h2
    refine ⟨hr.trans rfl, fun k hk => ?_⟩
    rw [hg k (fun q hq => hk q (List.mem_cons_of_mem _ hq))]
    exact get_applyBk_ne _ _ _ _ (fun e => hk p (List.mem_cons_self) e.symm)

/-- the names a `tal:define` binds in the scope (aliases are not variables) -/
def assignedNames : List Assign → List Str
  | [] => []
  | .alias _ _ :: r => assignedNames r
  | .assign names _ _ :: r => names.map (·.str) ++ assignedNames r

def allLocal : List Assign → Bool
  | [] => true
  | .alias _ _ :: r => allLocal r
  | .assign _ _ l :: r => l && allLocal r

/-- **the backups a `tal:define` accumulates**: whatever its clauses are, the element ends by restoring a list whose
last entry for every name it assigned is that name's binding at the start of the element -/
theorem evalDefine_acc (cfg : ECfg) (node : Node) : ∀ (f : Nat) (defs : List Assign) (al : List (Str × Val))
    (backups : List (Str × Option Val)) (s s' : RState), allLocal defs = true →
    evalDefine cfg al f defs node backups s = .ok () s' →
    ∃ s1 bk, rootOf s1 = rootOf s ∧ restore (bk ++ backups) s1 = .ok () s' ∧
      ∀ k, lastFor k bk = if k ∈ assignedNames defs then some (s.env.get k) else none := by
  intro f
  induction f with
  | zero => intro defs al backups s s' _ h; simp [evalDefine, mUnsupported] at h
  | succ f ih =>
    intro defs al backups s s' hl h
    cases defs with
    | nil =>
      simp only [evalDefine] at h
      obtain ⟨_, s1, h1, h2⟩ := bindOk5 _ _ _ _ _ h
      exact ⟨s1, [], ((rk_all cfg f).1 al node).at_ _ _ _ h1, h2, fun k => by simp [lastFor, assignedNames]⟩
    | cons a rest =>
      cases a with
      | alias name e =>
        simp only [evalDefine] at h
        obtain ⟨v, s1, h1, h2⟩ := bindOk5 _ _ _ _ _ h
        obtain ⟨s2, bk, hr, hres, hlast⟩ := ih rest _ backups s1 s' (by simpa [allLocal] using hl) h2
        refine ⟨s2, bk, hr.trans ((rk_enVal cfg al e).at_ _ _ _ h1), hres, fun k => ?_⟩
        rw [hlast k, enVal_env cfg al e s v s1 h1]
        rfl
      | assign names e loc =>
        have hloc : loc = true := by simp only [allLocal, Bool.and_eq_true] at hl; exact hl.1
        have hrest : allLocal rest = true := by simp only [allLocal, Bool.and_eq_true] at hl; exact hl.2
        subst hloc
        simp only [evalDefine, Bool.not_true, Bool.false_eq_true, if_false, if_true] at h
        rw [mGet_bind] at h
        obtain ⟨v, s1, h1, h2⟩ := bindOk5 _ _ _ _ _ h
        have henv : s1.env = s.env := enVal_env cfg al e s v s1 h1
        -- what the assignment itself touches
        have key : ∃ s2, (rootOf s2 = rootOf s1 ∧ ∀ k, k ∉ names.map (·.str) → s2.env.get k = s1.env.get k) ∧
            evalDefine cfg al f rest node (names.map (fun nm => (nm.str, s.env.get nm.str)) ++ backups) s2 = .ok () s' := by
          have hzip : ∀ (vs : List Val) (s2 : RState),
              (names.zip vs).forM (fun (p : Tok × Val) => setVar p.1.str p.2) s1 = .ok () s2 →
              rootOf s2 = rootOf s1 ∧ ∀ k, k ∉ names.map (·.str) → s2.env.get k = s1.env.get k := by
            intro vs s2 hz
            obtain ⟨hr, hg⟩ := setVars_get _ _ _ hz
            exact ⟨hr, fun k hk => hg k (fun p hp e => hk (List.mem_map.2 ⟨p.1, (List.of_mem_zip hp).1, e⟩))⟩
          split at h2
          · obtain ⟨_, s2, h3, h4⟩ := bindOk5 _ _ _ _ _ h2
            rw [setVar_run] at h3
            cases h3
            refine ⟨_, ⟨?_, ?_⟩, h4⟩
            · rfl
            · intro k hk
              exact get_applyBk_ne _ _ _ _ (by simpa using hk)
          · split at h2
            · obtain ⟨vs', s1', hp, h5⟩ := bindOk5 _ _ _ _ _ h2
              cases hp
              split at h5
              · simp [bind, mRaise] at h5
              · obtain ⟨_, s2, h6, h7⟩ := bindOk5 _ _ _ _ _ h5
                exact ⟨s2, hzip _ _ h6, h7⟩
            · obtain ⟨vs', s1', hp, h5⟩ := bindOk5 _ _ _ _ _ h2
              cases hp
              split at h5
              · simp [bind, mRaise] at h5
              · obtain ⟨_, s2, h6, h7⟩ := bindOk5 _ _ _ _ _ h5
                exact ⟨s2, hzip _ _ h6, h7⟩
            all_goals (simp [bind, mRaise, mUnsupported] at h2)
        obtain ⟨s2, htouch, h4⟩ := key
        obtain ⟨s3, bk, hr, hres, hlast⟩ := ih rest al _ s2 s' hrest h4
        refine ⟨s3, bk ++ names.map (fun nm => (nm.str, s.env.get nm.str)), ?_, ?_, fun k => ?_⟩
        · rw [hr, htouch.1]; exact (rk_enVal cfg al e).at_ _ _ _ h1
        · simpa [List.append_assoc] using hres
        · rw [lastFor_append]
          by_cases hk : k ∈ names.map (·.str)
          · rw [lastFor_map_mem k (fun n => s.env.get n) names hk]
            simp [assignedNames, hk]
          · rw [lastFor_map_none k (fun n => s.env.get n) names hk, hlast k, htouch.2 k hk, henv]
            simp [assignedNames, hk]

/-- **C05 (every local definition ends with its element)**: an element whose `tal:define` consists of local clauses —
any number of them; single names, tuples, aliases; a name defined more than once — leaves every name it defined bound to
exactly what it was bound to before the element (or undefined again), whatever the body did. -/
theorem C05_local_defines_restore (cfg : ECfg) (al : List (Str × Val)) (f : Nat) (defs : List Assign) (node : Node)
    (s s' : RState) (hl : allLocal defs = true) (h : eval cfg al (f + 1) (.define defs node) s = .ok () s') :
    ∀ k ∈ assignedNames defs, s'.env.get k = s.env.get k := by
  simp only [eval] at h
  obtain ⟨s1, bk, hr, hres, hlast⟩ := evalDefine_acc cfg node f defs al [] s s' hl h
  intro k hk
  rw [List.append_nil] at hres
  exact restore_last bk k s s1 s' hr (by rw [hlast k]; simp [hk]) hres

/-- **C05 (a tuple of loop variables ends with its element)**: `tal:repeat="(a, b, …) items"` (local) leaves each of
its variables bound to what it was bound to before the loop, after any number of iterations. -/
theorem C05_repeat_restores_all (cfg : ECfg) (al : List (Str × Val)) (f id : Nat) (names : List Tok) (e : EN) (ws : Str)
    (node : Node) (s s' : RState) (h : eval cfg al (f + 1) (.repeat_ id names e true ws node) s = .ok () s') :
    ∀ k ∈ names.map (·.str), s'.env.get k = s.env.get k := by
  simp only [eval, if_true] at h
  rw [mGet_bind] at h
  have hbk : ∀ k ∈ names.map (·.str), lastFor k (names.map (fun nm => (nm.str, s.env.get nm.str))) = some (s.env.get k) :=
    fun k hk => lastFor_map_mem k (fun n => s.env.get n) names hk
  generalize names.map (fun nm => (nm.str, s.env.get nm.str)) = bk at h hbk
  generalize s.env.get (lit "repeat") = rd at h
  have hE : ∀ m : RM Unit, m s = .ok () s' → EndsWith (restore bk) m (rootOf s) →
      ∃ s1, rootOf s1 = rootOf s ∧ restore bk s1 = .ok () s' := fun m hm hE => hE.run s s' rfl hm
  obtain ⟨s1, hr, hk⟩ := hE _ h (by
    repeat' (first
      | exact endsWith_self _ _
      | (apply endsWith_bind)
      | exact rk_enVal _ _ _
      | exact rk_pure _
      | exact rk_unsupported _
      | exact rk_modEnv _ (fun _ => ⟨rfl, rfl⟩)
      | exact rk_get
      | exact rk_modify _ (fun _ => rfl)
      | exact rk_forM _ _ (fun a => rk_setVar _ _)
      | exact (rk_all cfg f).2.2.2 al _ _ _ _ _ _ _
      | intro _
      | split))
  intro k hkm
  exact restore_last bk k s s1 s' hr (hbk k hkm) hk

/-- the hypotheses are met: a tuple definition whose expression gives a pair runs to the end of its element (and then
`C05_local_defines_restore` applies to both names) -/
theorem C05_tuple_define_runs (cfg : ECfg) (al : List (Str × Val)) (f : Nat) (a b : Tok) (e : EN) (t : Str)
    (s s1 : RState) (x y : Val) (hv : enVal cfg al e s = .ok (.tuple [x, y]) s1) :
    ∃ s', eval cfg al (f + 4) (.define [.assign [a, b] e true] (.text t)) s = .ok () s' ∧
      s'.env.get a.str = s.env.get a.str ∧ s'.env.get b.str = s.env.get b.str := by
  have hrun : ∃ s', eval cfg al (f + 4) (.define [.assign [a, b] e true] (.text t)) s = .ok () s' := by
    simp only [eval, evalDefine, Bool.not_true, Bool.false_eq_true, if_false, if_true]
    rw [mGet_bind]
    simp only [bind, hv, pure, List.length_cons, List.length_nil, List.zip_cons_cons, List.zip_nil_right, forM_cons', setVar_run]
    obtain ⟨s2, h2, _, _⟩ := restore_get ([(a.str, s.env.get a.str), (b.str, s.env.get b.str)] ++ []) (_ : RState)
    exact ⟨s2, by simpa [emit, mModify, bind, pure, List.forM_nil] using h2⟩
  obtain ⟨s', hs'⟩ := hrun
  have := C05_local_defines_restore cfg al (f + 3) [.assign [a, b] e true] (.text t) s s' (by simp [allLocal]) hs'
  exact ⟨s', hs', this a.str (by simp [assignedNames]), this b.str (by simp [assignedNames])⟩

end ChamVerif

import ChamVerif.Eval
/-! # C04 — expressions follow TALES semantics and are evaluated exactly once, in order -/
namespace ChamVerif

/-- **tie**: the exception classes a pipe moves on for, as read from `TalesExpr.exceptions` and
`ExistsExpr.exceptions` in /repo today -/
theorem C04_caught_set :
    Gen.talesExceptions = ["AttributeError", "NameError", "LookupError", "TypeError", "ValueError"] ∧
    Gen.existsExceptions = ["AttributeError", "LookupError", "TypeError", "NameError"] := by decide

/-- subclass closure as Python sees it (MROs read from the live classes): KeyError and IndexError are
LookupErrors, UnboundLocalError a NameError, UnicodeDecodeError a ValueError; ZeroDivisionError,
RuntimeError, AssertionError, OSError, KeyboardInterrupt are not caught -/
theorem C04_caught_closure :
    let caught (c : String) : Bool := match Gen.excParents.find? (·.1 == c) with
      | some (_, mro) => mro.any (fun x => Gen.talesExceptions.contains x)
      | none => false
    (["AttributeError", "NameError", "UnboundLocalError", "LookupError", "KeyError", "IndexError", "TypeError",
      "ValueError", "UnicodeDecodeError"].all caught) = true ∧
    (["ZeroDivisionError", "RuntimeError", "RecursionError", "AssertionError", "OSError", "Exception",
      "KeyboardInterrupt", "SystemExit", "StopIteration"].any caught) = false := by decide

/-- evaluation of one pipe alternative -/
def evalAlt (cfg : ECfg) (al : List (Str × Val)) (env : Env) (f : Nat) (a : PyAlt) (esc : Esc) (dflt : Option Str) : XM Val :=
  match a with
  | .expr e => runEM (evalP (mkECtx cfg al env) 200 e)
  | .nested e tok => (do xSetToken tok; evalT cfg al env f e esc dflt)

theorem evalAlts_cons (cfg : ECfg) (al : List (Str × Val)) (env : Env) (f : Nat) (a : PyAlt) (rest : List PyAlt)
    (esc : Esc) (dflt : Option Str) (x : XState) :
    evalAlts cfg al env (f+1) (a :: rest) esc dflt x =
      match evalAlt cfg al env f a esc dflt x with
      | .ok v x' => .ok v x'
      | .unsupported w => .unsupported w
      | .raised ex x' =>
        if rest.isEmpty then .raised ex x'
        else if isSubclass cfg ex.cls cfg.talesExc then evalAlts cfg al env f rest esc dflt x'
        else .raised ex x' := by
  simp only [evalAlts, evalAlt]
  cases a <;> rfl

/-- the alternatives `pre` all raise caught exceptions, threading the expression state from `x` to `x'`;
`g` is the fuel the first of them is evaluated with (the pipe itself running with fuel `g + 1`) -/
inductive CaughtChain (cfg : ECfg) (al : List (Str × Val)) (env : Env) (esc : Esc) (dflt : Option Str) :
    Nat → List PyAlt → XState → XState → Prop
  | nil (g : Nat) (x : XState) : CaughtChain cfg al env esc dflt g [] x x
  | cons (g : Nat) (a : PyAlt) (pre : List PyAlt) (x x1 x' : XState) (ex : Exc) :
      evalAlt cfg al env (g+1) a esc dflt x = .raised ex x1 →
      isSubclass cfg ex.cls cfg.talesExc = true →
      CaughtChain cfg al env esc dflt g pre x1 x' →
      CaughtChain cfg al env esc dflt (g+1) (a :: pre) x x'

/-- **C04 (pipe)**: `a₁ | … | aₖ | …`: if every alternative before `aₖ` raised one of the caught
(lookup-type) exceptions and `aₖ` succeeds, the value is `aₖ`'s and the state — in particular the
evaluation log — is the one after `aₖ`: no later alternative was evaluated. -/
theorem C04_pipe_first_success (cfg : ECfg) (al : List (Str × Val)) (env : Env) (esc : Esc) (dflt : Option Str) :
    ∀ (pre : List PyAlt) (g : Nat) (a : PyAlt) (post : List PyAlt) (x x' x'' : XState) (v : Val),
      CaughtChain cfg al env esc dflt g pre x x' →
      evalAlt cfg al env (g - pre.length) a esc dflt x' = .ok v x'' →
      evalAlts cfg al env (g + 1) (pre ++ a :: post) esc dflt x = .ok v x'' := by
  intro pre
  induction pre with
  | nil =>
    intro g a post x x' x'' v hc ha
    cases hc
    simp only [List.nil_append, evalAlts_cons]
    simp only [List.length_nil, Nat.sub_zero] at ha
    rw [ha]
  | cons b pre ih =>
    intro g a post x x' x'' v hc ha
    cases hc with
    | cons g' _ _ _ x1 _ ex hb hsub hrest =>
      simp only [List.cons_append, evalAlts_cons, hb, hsub, if_true]
      have hne : (pre ++ a :: post).isEmpty = false := by simp
      simp only [hne, Bool.false_eq_true, if_false]
      apply ih g' a post x1 x' x'' v hrest
      simpa using ha

/-- … and an exception that is *not* of a caught class propagates at once: nothing after it is evaluated. -/
theorem C04_pipe_uncaught_propagates (cfg : ECfg) (al : List (Str × Val)) (env : Env) (esc : Esc) (dflt : Option Str) :
    ∀ (pre : List PyAlt) (g : Nat) (a : PyAlt) (post : List PyAlt) (x x' x'' : XState) (ex : Exc),
      CaughtChain cfg al env esc dflt g pre x x' →
      evalAlt cfg al env (g - pre.length) a esc dflt x' = .raised ex x'' →
      isSubclass cfg ex.cls cfg.talesExc = false →
      evalAlts cfg al env (g + 1) (pre ++ a :: post) esc dflt x = .raised ex x'' := by
  intro pre
  induction pre with
  | nil =>
    intro g a post x x' x'' ex hc ha hs
    cases hc
    simp only [List.nil_append, evalAlts_cons]
    simp only [List.length_nil, Nat.sub_zero] at ha
    rw [ha]
    simp [hs]
  | cons b pre ih =>
    intro g a post x x' x'' ex hc ha hs
    cases hc with
    | cons g' _ _ _ x1 _ ex' hb hsub hrest =>
      simp only [List.cons_append, evalAlts_cons, hb, hsub, if_true]
      have hne : (pre ++ a :: post).isEmpty = false := by simp
      simp only [hne, Bool.false_eq_true, if_false]
      apply ih g' a post x1 x' x'' ex hrest _ hs
      simpa using ha

/-- **C04 (evaluated once)**: reading a value that an enclosing `Cache` node evaluated does not
evaluate anything: the expression state (logs, token) is untouched. -/
theorem C04_cached_read_pure (env : Env) (id : Nat) (x : XState) :
    (∃ v, getCached env id x = .ok v x) ∨ (∃ w, getCached env id x = .unsupported w) := by
  unfold getCached
  cases env.topFrame.cache.find? (·.1 == id) with
  | some p => left; exact ⟨p.2, rfl⟩
  | none => right; exact ⟨_, rfl⟩

/-- **C04 (names)**: a template variable wins over a Python builtin of the same name; an unbound
non-builtin name is a `NameError` carrying the name. -/
theorem C04_name_template_first (c : ECtx) (n : Str) (v : Val) (s : ESt)
    (hs : startsWith n (lit "__") = false) (hi : n.toString ∉ internals)
    (hal : lookupAssoc c.aliases n = none) (hv : lookupAssoc c.vars n = some v) :
    resolveName c n s = (.ok v, s) := by
  simp [resolveName, hs, hi, hal, hv, Pure.pure]

theorem C04_name_unbound (c : ECtx) (n : Str) (s : ESt)
    (hs : startsWith n (lit "__") = false) (hi : n.toString ∉ internals)
    (hal : lookupAssoc c.aliases n = none) (hv : lookupAssoc c.vars n = none)
    (hnb : n.toString ≠ "nothing" ∧ n.toString ≠ "macros" ∧ n.toString ≠ "template")
    (hm : n.toString ∉ modelledFns) (hb : n.toString ∉ c.pyBuiltins) :
    resolveName c n s = (.raised { cls := "NameError", msg := n }, s) := by
  simp [resolveName, hs, hi, hal, hv, hnb.1, hnb.2.1, hnb.2.2, hm, hb, emRaise, liftR]

end ChamVerif

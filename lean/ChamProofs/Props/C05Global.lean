import ChamVerif.Eval
/-! # C05 — a global definition of several names gives each name its own item

(The behaviour of /repo after the D-05g fix; before it the whole unpacked value was stored under every name, and the
model had followed the code.)  `C05_global_unpack`: storing the pairs `names.zip items` globally, for pairwise different
names, leaves every name bound to *its* item in the render context — what a macro call copies back into the scope. -/
namespace ChamVerif

/-- the global stores a multi-name `tal:define` / `tal:repeat` makes -/
def storeGlobals (pairs : List (Str × Val)) : RM Unit := pairs.forM (fun (nm, x) => setGlobal nm x)

theorem setGlobal_run (k : Str) (v : Val) (s : RState) :
    setGlobal k v s = .ok () { s with env := { s.env with rcontext := (k, v) :: s.env.rcontext.filter (·.1 != k) } } := rfl

theorem find_filter_ne (l : List (Str × Val)) (k k' : Str) (h : k' ≠ k) :
    (l.filter (fun x => x.1 != k)).find? (fun x => x.1 == k') = l.find? (fun x => x.1 == k') := by
  induction l with
  | nil => rfl
  | cons a r ih =>
    by_cases hak : a.1 = k
    · have hf : (a.1 != k) = false := by simp [hak]
      have hne : (a.1 == k') = false := by
        rw [hak]; simpa using (fun e : k = k' => h e.symm)
      rw [List.filter_cons_of_neg (by simp [hf]), List.find?_cons_of_neg (by simp [hne]), ih]
    · have hf : (a.1 != k) = true := by simpa using hak
      rw [List.filter_cons_of_pos (by simp [hf])]
      by_cases hk' : (a.1 == k') = true
      · rw [List.find?_cons_of_pos (by simpa using hk'), List.find?_cons_of_pos (by simpa using hk')]
      · rw [List.find?_cons_of_neg (by simpa using hk'), List.find?_cons_of_neg (by simpa using hk'), ih]

theorem lookup_filter_ne (l : List (Str × Val)) (k k' : Str) (h : k' ≠ k) :
    lookupAssoc (l.filter (fun x => x.1 != k)) k' = lookupAssoc l k' := by
  unfold lookupAssoc
  rw [find_filter_ne l k k' h]

theorem lookup_cons_ne (l : List (Str × Val)) (k k' : Str) (v : Val) (h : k' ≠ k) :
    lookupAssoc ((k, v) :: l) k' = lookupAssoc l k' := by
  unfold lookupAssoc
  have hne : (k == k') = false := by simpa using (fun e : k = k' => h e.symm)
  rw [List.find?_cons_of_neg (by simp [hne])]

/-- **C05 (each name its own item)** -/
theorem C05_global_unpack : ∀ (pairs : List (Str × Val)) (s : RState), (pairs.map (·.1)).Nodup →
    ∃ s', storeGlobals pairs s = .ok () s' ∧
      (∀ p ∈ pairs, lookupAssoc s'.env.rcontext p.1 = some p.2) ∧
      (∀ k, k ∉ pairs.map (·.1) → lookupAssoc s'.env.rcontext k = lookupAssoc s.env.rcontext k) ∧
      s'.env.own = s.env.own ∧ s'.streams = s.streams := by
  intro pairs
  induction pairs with
  | nil => intro s _; exact ⟨s, rfl, by simp, by simp, rfl, rfl⟩
  | cons p rest ih =>
    intro s hnd
    obtain ⟨k, v⟩ := p
    simp only [List.map_cons, List.nodup_cons] at hnd
    obtain ⟨hk, hrest⟩ := hnd
    obtain ⟨s', hs', hin, hout, hown, hstr⟩ := ih { s with env := { s.env with rcontext := (k, v) :: s.env.rcontext.filter (·.1 != k) } } hrest
    refine ⟨s', ?_, ?_, ?_, hown, hstr⟩
    · show (setGlobal k v >>= fun _ => storeGlobals rest) s = _
      simp only [bind, setGlobal_run]
      exact hs'
    · intro p hp
      rcases List.mem_cons.mp hp with rfl | hp
      · rw [hout k hk]
        simp [lookupAssoc]
      · exact hin p hp
    · intro k' hk'
      simp only [List.map_cons, List.mem_cons, not_or] at hk'
      rw [hout k' hk'.2]
      show lookupAssoc ((k, v) :: s.env.rcontext.filter (fun x => x.1 != k)) k' = _
      rw [lookup_cons_ne _ _ _ _ hk'.1, lookup_filter_ne _ _ _ hk'.1]

/-- the stores `evalDefine` / `evalRepeat` make for a global definition of several names are `storeGlobals` of the (name, item) pairs -/
theorem storeGlobals_tie : ∀ (l : List (Tok × Val)),
    l.forM (fun (p : Tok × Val) => setGlobal p.1.str p.2) = storeGlobals (l.map (fun p => (p.1.str, p.2))) := by
  intro l
  induction l with
  | nil => rfl
  | cons a r ih =>
    show (setGlobal a.1.str a.2 >>= fun _ => r.forM _) = (setGlobal a.1.str a.2 >>= fun _ => storeGlobals (r.map _))
    rw [ih]

end ChamVerif

import ChamVerif.Tales
import ChamProofs.ReLemmas
/-! # C06 — what the braces regex of the Interpolator matches

`Interpolator.braces_required_regex = \$({(?P<expression>.*)})` (DOTALL).  `BRACES_REQ` is regenerated from the live
class on every run; `tie_bracesReq` re-checks that it still has the shape the theorems below are about.  `search_braces`:
in `pre ++ "${" ++ b1 ++ "}" ++ b2` with no `$` in `pre` and no `}` in `b2`, the first match starts at the `$` and ends
after that *last* `}`, with group `expression` = `b1`. -/
namespace ChamVerif.C06Loop
open ChamVerif

def bracesReqShape : Re :=
  .seq (.chr 36) (.grp 1 (.seq (.chr 123) (.seq (.grp 2 (.rep true 0 none (.any true))) (.chr 125))))

/-- the regex of the live `Interpolator` (regenerated) is the one the theorems are about -/
theorem tie_bracesReq : Gen.BRACES_REQ = bracesReqShape ∧ Gen.BRACES_REQ_groups = [("expression", 2)] := ⟨rfl, rfl⟩

theorem den_chr_opt {α} (u : Uni) (s : Array Nat) (c : Nat) (st : St) (k : K α) :
    den u s (.chr c) st k = if s[st.pos]? = some c then k { st with pos := st.pos + 1 } else none := by
  rw [den_chr]
  by_cases h : st.pos < s.size
  · simp only [h, dite_true, Array.getElem?_eq_getElem h, Option.some.injEq]
    by_cases hc : s[st.pos] = c
    · simp [hc]
    · simp [hc]
  · simp only [h, dite_false]
    have : s[st.pos]? = none := Array.getElem?_eq_none (by omega)
    simp [this]

/-- try `k` at every position from the end of the input down to `pos` (`d` = what is left) -/
def tryDown {α} (k : K α) (caps : Caps) : Nat → Nat → Option α
  | 0, pos => k { pos := pos, caps := caps }
  | d + 1, pos => tryDown k caps d (pos + 1) <|> k { pos := pos, caps := caps }

theorem den_grp {α} (u : Uni) (s : Array Nat) (i : Nat) (r : Re) (st : St) (k : K α) :
    den u s (.grp i r) st k = den u s r st (fun st' => k { st' with caps := (i, st.pos, st'.pos) :: st'.caps }) := by
  simp [den]

theorem den_any {α} (u : Uni) (s : Array Nat) (st : St) (k : K α) :
    den u s (.any true) st k = if st.pos < s.size then k { st with pos := st.pos + 1 } else none := by
  simp [den]

/-- the greedy `.*` (DOTALL) tries its continuation at the end of the input first, then one character earlier, … -/
theorem star_any {α} (s : Array Nat) (body : M α)
    (hbody : ∀ st k', body st k' = if st.pos < s.size then k' { st with pos := st.pos + 1 } else none)
    (k : K α) (caps : Caps) :
    ∀ (d pos fuel cnt : Nat), pos + d = s.size → d + 1 ≤ fuel →
      repM true body 0 none fuel cnt { pos := pos, caps := caps } k = tryDown k caps d pos := by
  intro d
  induction d with
  | zero =>
    intro pos fuel cnt hp hf
    cases fuel with
    | zero => omega
    | succ f =>
      have hlt : ¬ pos < s.size := by omega
      simp [repM, repMore, canMore, hbody, hlt, tryDown]
  | succ d ih =>
    intro pos fuel cnt hp hf
    cases fuel with
    | zero => omega
    | succ f =>
      have hlt : pos < s.size := by omega
      have := ih (pos + 1) f (cnt + 1) (by omega) (by omega)
      simp only [repM, repMore, canMore, hbody, hlt, if_true, Nat.not_lt_zero, if_false,
        Nat.lt_add_one, decide_true, Bool.true_or, tryDown, this]

/-- the continuation the regex runs after `.*`: a `}` here ends the match -/
def closeK (s : Array Nat) (i : Nat) : K St := fun st =>
  if s[st.pos]? = some 125 then
    some { pos := st.pos + 1, caps := (1, i + 1, st.pos + 1) :: (2, i + 2, st.pos) :: st.caps }
  else none

theorem matchAt_shape (u : Uni) (s : Array Nat) (i : Nat) :
    matchAt u s bracesReqShape i =
      if s[i]? = some 36 then
        if s[i + 1]? = some 123 then
          if i + 2 ≤ s.size then tryDown (closeK s i) [] (s.size - (i + 2)) (i + 2) else none
        else none
      else none := by
  unfold matchAt bracesReqShape
  rw [den_seq, den_chr_opt]
  by_cases h0 : s[i]? = some 36
  · simp only [h0, if_true]
    rw [den_grp, den_seq, den_chr_opt]
    by_cases h1 : s[i + 1]? = some 123
    · simp only [h1, if_true]
      have hsz : i + 2 ≤ s.size := by
        rcases Nat.lt_or_ge (i + 1) s.size with h | h
        · omega
        · have : s[i + 1]? = none := Array.getElem?_eq_none (by omega)
          rw [this] at h1; cases h1
      simp only [hsz, if_true]
      rw [den_seq, den_grp, den_rep]
      rw [star_any s (den u s (.any true)) (den_any u s) _ [] (s.size - (i + 2)) (i + 2) _ 0 (by omega) (by simp)]
      congr 1
      funext st
      simp only [den_chr_opt, closeK]
    · simp only [h1, if_false]
  · simp only [h0, if_false]

/-- no `}` from `pos` on: every try fails -/
theorem tryDown_none (s : Array Nat) (i : Nat) :
    ∀ (d pos : Nat), pos + d = s.size → (∀ p, pos ≤ p → p < s.size → s[p]? ≠ some 125) →
      tryDown (closeK s i) [] d pos = none := by
  intro d
  induction d with
  | zero =>
    intro pos hp _
    have : s[pos]? = none := Array.getElem?_eq_none (by omega)
    simp [tryDown, closeK, this]
  | succ d ih =>
    intro pos hp hno
    simp only [tryDown]
    rw [ih (pos + 1) (by omega) (fun p hp1 hp2 => hno p (by omega) hp2)]
    have := hno pos (Nat.le_refl _) (by omega)
    simp [closeK, this]

/-- the last `}` at `q`: that is where the match ends -/
theorem tryDown_last (s : Array Nat) (i q : Nat) (hq : s[q]? = some 125)
    (hafter : ∀ p, q < p → p < s.size → s[p]? ≠ some 125) :
    ∀ (d pos : Nat), pos + d = s.size → pos ≤ q →
      tryDown (closeK s i) [] d pos = some { pos := q + 1, caps := [(1, i + 1, q + 1), (2, i + 2, q)] } := by
  have hqs : q < s.size := by
    rcases Nat.lt_or_ge q s.size with h | h
    · exact h
    · have : s[q]? = none := Array.getElem?_eq_none (by omega)
      rw [this] at hq; cases hq
  intro d
  induction d with
  | zero => intro pos hp hle; omega
  | succ d ih =>
    intro pos hp hle
    simp only [tryDown]
    by_cases hpq : pos = q
    · subst hpq
      rw [tryDown_none s i d (pos + 1) (by omega) (fun p hp1 hp2 => hafter p (by omega) hp2)]
      simp [closeK, hq]
    · rw [ih (pos + 1) (by omega) (by omega)]
      rfl

/-- no `${` begins inside `pre`, nor with its last character and the `$` that follows it -/
def NoStart (pre : Str) : Prop := ∀ i, pre[i]? = some 36 → (pre ++ [36])[i + 1]? ≠ some 123

theorem noStart_of_no_dollar (pre : Str) (h : 36 ∉ pre) : NoStart pre := by
  intro i hi
  exact absurd (List.mem_of_getElem? hi) h

theorem noStart_nil : NoStart [] := noStart_of_no_dollar [] (by simp)

/-- text without `$`, then a run of `$`: still no `${` begins there -/
theorem noStart_run (pre0 : Str) (k : Nat) (h : 36 ∉ pre0) : NoStart (pre0 ++ List.replicate k 36) := by
  intro i hi hn
  -- every character from `pre0.length` on (the run, and the `$` appended) is `$`
  by_cases hlt : i + 1 < pre0.length
  · have : (pre0 ++ List.replicate k 36)[i]? = pre0[i]? := List.getElem?_append_left (by omega)
    rw [this] at hi
    exact h (List.mem_of_getElem? hi)
  · have hge : pre0.length ≤ i + 1 := by omega
    have hall : ∀ x ∈ List.replicate k 36 ++ [36], x = 36 := by
      intro x hx
      rcases List.mem_append.mp hx with hx | hx
      · exact (List.mem_replicate.mp hx).2
      · simpa using hx
    have hget : ((pre0 ++ List.replicate k 36) ++ [36])[i + 1]? = (List.replicate k 36 ++ [36])[i + 1 - pre0.length]? := by
      rw [List.append_assoc, List.getElem?_append_right hge]
    rw [hget] at hn
    have := hall 123 (List.mem_of_getElem? hn)
    omega

/-- **the braces regex on a text**: the first match is at the first `$` that is followed by `{` … `}`; it ends after the
last `}` of the text -/
theorem search_braces (u : Uni) (pre b1 b2 : Str) (hpre : NoStart pre) (hb2 : 125 ∉ b2) :
    search u (pre ++ 36 :: 123 :: (b1 ++ 125 :: b2)).toArray bracesReqShape =
      some (pre.length, { pos := pre.length + 2 + b1.length + 1,
                          caps := [(1, pre.length + 1, pre.length + 2 + b1.length + 1),
                                   (2, pre.length + 2, pre.length + 2 + b1.length)] }) := by
  generalize hT : pre ++ 36 :: 123 :: (b1 ++ 125 :: b2) = T
  have hlen : T.length = pre.length + 2 + b1.length + 1 + b2.length := by
    rw [← hT]; simp only [List.length_append, List.length_cons]; omega
  have hget : ∀ p, T.toArray[p]? = T[p]? := fun p => List.getElem?_toArray
  -- no match before the `$`
  have hbefore : ∀ i, i < pre.length → matchAt u T.toArray bracesReqShape i = none := by
    intro i hi
    rw [matchAt_shape]
    by_cases h36 : T.toArray[i]? = some 36
    · rw [if_pos h36]
      have hp : pre[i]? = some 36 := by
        rw [hget, ← hT, List.getElem?_append_left hi] at h36; exact h36
      have hns := hpre i hp
      have hnext : T.toArray[i + 1]? ≠ some 123 := by
        rw [hget, ← hT]
        by_cases hlt : i + 1 < pre.length
        · rw [List.getElem?_append_left hlt]
          rw [List.getElem?_append_left hlt] at hns
          exact hns
        · have : i + 1 = pre.length := by omega
          rw [this]
          simp
      rw [if_neg hnext]
    · rw [if_neg h36]
  -- the match at the `$`
  have hat : matchAt u T.toArray bracesReqShape pre.length =
      some { pos := pre.length + 2 + b1.length + 1,
             caps := [(1, pre.length + 1, pre.length + 2 + b1.length + 1), (2, pre.length + 2, pre.length + 2 + b1.length)] } := by
    rw [matchAt_shape]
    have h0 : T.toArray[pre.length]? = some 36 := by
      rw [hget, ← hT]; simp
    have h1 : T.toArray[pre.length + 1]? = some 123 := by
      rw [hget, ← hT, List.getElem?_append_right (by omega)]; simp
    have hq : T.toArray[pre.length + 2 + b1.length]? = some 125 := by
      rw [hget, ← hT, List.getElem?_append_right (by omega)]
      have : pre.length + 2 + b1.length - pre.length = b1.length + 2 := by omega
      rw [this]
      simp
    have hafter : ∀ p, pre.length + 2 + b1.length < p → p < T.toArray.size → T.toArray[p]? ≠ some 125 := by
      intro p hp1 hp2
      rw [hget, ← hT, List.getElem?_append_right (by omega)]
      have : p - pre.length = (p - pre.length - 2 - b1.length - 1) + 1 + b1.length + 2 := by omega
      rw [this]
      simp only [List.getElem?_cons_succ]
      rw [List.getElem?_append_right (by omega)]
      have h2 : p - pre.length - 2 - b1.length - 1 + 1 + b1.length - b1.length = (p - pre.length - 2 - b1.length - 1) + 1 := by omega
      rw [h2, List.getElem?_cons_succ]
      intro h
      exact hb2 (List.mem_of_getElem? h)
    have hsz : pre.length + 2 ≤ T.toArray.size := by simp [hlen]; omega
    simp only [h0, h1, if_true, hsz]
    exact tryDown_last T.toArray pre.length (pre.length + 2 + b1.length) hq hafter _ _ (by simp [hlen]; omega) (by omega)
  -- the search loop
  have hloop : ∀ (n i fuel : Nat), i + n = pre.length → n + 1 ≤ fuel →
      searchFrom u T.toArray bracesReqShape fuel i = some (pre.length, {
        pos := pre.length + 2 + b1.length + 1,
        caps := [(1, pre.length + 1, pre.length + 2 + b1.length + 1), (2, pre.length + 2, pre.length + 2 + b1.length)] }) := by
    intro n
    induction n with
    | zero =>
      intro i fuel hi hf
      cases fuel with
      | zero => omega
      | succ f =>
        have : i = pre.length := by omega
        subst this
        have hsz : ¬ pre.length > T.toArray.size := by simp [hlen]; omega
        simp only [searchFrom, hsz, if_false, hat]
    | succ n ih =>
      intro i fuel hi hf
      cases fuel with
      | zero => omega
      | succ f =>
        have hsz : ¬ i > T.toArray.size := by simp [hlen]; omega
        simp only [searchFrom, hsz, if_false, hbefore i (by omega)]
        exact ih (i + 1) f (by omega) (by omega)
  unfold search
  exact hloop pre.length 0 _ (by omega) (by simp [hlen]; omega)

/-- … and a text without `$` has no match -/
theorem search_no_dollar (u : Uni) (t : Str) (ht : 36 ∉ t) : search u t.toArray bracesReqShape = none := by
  have hnone : ∀ i, matchAt u t.toArray bracesReqShape i = none := by
    intro i
    rw [matchAt_shape]
    have : t.toArray[i]? ≠ some 36 := by
      rw [List.getElem?_toArray]
      intro h
      exact ht (List.mem_of_getElem? h)
    rw [if_neg this]
  have hloop : ∀ (fuel i : Nat), searchFrom u t.toArray bracesReqShape fuel i = none := by
    intro fuel
    induction fuel with
    | zero => intro i; rfl
    | succ f ih =>
      intro i
      simp only [searchFrom, hnone, ih]
      split <;> rfl
  exact hloop _ _

/-! ## entities: an expression without `&` is not changed by the decoding step -/

def entity2Shape : Re :=
  .seq (.chr 38) (.seq (.grp 1 (.rep true 0 (some 1) (.chr 35))) (.seq (.grp 2 (.rep true 0 (some 1) (.chr 120)))
    (.seq (.grp 3 (.alt (.rep true 1 (some 5) (.cls false [(.cat false .digit false)]))
      (.rep true 1 (some 8) (.cls false [(.cat false .word false)])))) (.chr 59))))

/-- the entity regex of the live module (regenerated) begins with `&` -/
theorem tie_entity2 : Gen.ENTITY2_RE = entity2Shape := rfl

/-- a regex that begins with a fixed character finds nothing in a text without that character -/
theorem searchFrom_first_char_none (u : Uni) (t : Str) (ch : Nat) (R : Re) (ht : ch ∉ t) :
    ∀ (fuel i : Nat), searchFrom u t.toArray (.seq (.chr ch) R) fuel i = none := by
  have hnone : ∀ i, matchAt u t.toArray (.seq (.chr ch) R) i = none := by
    intro i
    unfold matchAt
    rw [den_seq, den_chr_opt]
    have : t.toArray[i]? ≠ some ch := by
      rw [List.getElem?_toArray]
      intro h
      exact ht (List.mem_of_getElem? h)
    simp only [this, if_false]
  intro fuel
  induction fuel with
  | zero => intro i; rfl
  | succ f ih =>
    intro i
    simp only [searchFrom, hnone, ih]
    split <;> rfl

theorem finditer_first_char_none (u : Uni) (t : Str) (ch : Nat) (R : Re) (ht : ch ∉ t) :
    finditer u t.toArray (.seq (.chr ch) R) = [] := by
  unfold finditer
  cases hsz : t.toArray.size + 1 with
  | zero => omega
  | succ n =>
    simp only [finditerAux, search, searchFrom_first_char_none u t ch R ht]

/-- **no `&`, nothing to decode** -/
theorem decodeEntities_no_amp (rx : Rx) (hrx : rx.entity2Re = entity2Shape) (s : Str) (hs : 38 ∉ s) :
    decodeEntities rx s = some s := by
  unfold decodeEntities
  simp only [hrx]
  unfold entity2Shape
  rw [finditer_first_char_none Gen.uni s 38 _ hs]
  simp [decodeEntities.go]

end ChamVerif.C06Loop

import ChamVerif.Tales
import ChamProofs.ReLemmas
/-! # C06 — what the braces regex of the Interpolator matches

`Interpolator.braces_required_regex = \$({(?P<expression>.*)})` (DOTALL).  `BRACES_REQ` is regenerated from the live
class on every run; `tie_bracesReq` re-checks that it still has the shape the theorems below are about.  `search_braces`:
in `pre ++ "${" ++ b1 ++ "}" ++ b2` with no `$` in `pre` and no `}` in `b2`, the first match starts at the `$` and ends
after that *last* `}`, with group `expression` = `b1`. -/
namespace ChamVerif.C06Loop
open ChamVerif

def bracesReqShape : Re :=
  .seq (.chr 36) (.grp 1 (.seq (.chr 123) (.seq (.grp 2 (.rep true 0 none (.any true))) (.chr 125))))

/-- the regex of the live `Interpolator` (regenerated) is the one the theorems are about -/
theorem tie_bracesReq : Gen.BRACES_REQ = bracesReqShape ∧ Gen.BRACES_REQ_groups = [("expression", 2)] := ⟨rfl, rfl⟩

theorem den_chr_opt {α} (u : Uni) (s : Array Nat) (c : Nat) (st : St) (k : K α) :
    den u s (.chr c) st k = if s[st.pos]? = some c then k { st with pos := st.pos + 1 } else none := by
  rw [den_chr]
  by_cases h : st.pos < s.size
  · simp only [h, dite_true, Array.getElem?_eq_getElem h, Option.some.injEq]
    by_cases hc : s[st.pos] = c
    · simp [hc]
    · simp [hc]
  · simp only [h, dite_false]
    have : s[st.pos]? = none := Array.getElem?_eq_none (by omega)
    simp [this]

/-- try `k` at every position from the end of the input down to `pos` (`d` = what is left) -/
def tryDown {α} (k : K α) (caps : Caps) : Nat → Nat → Option α
  | 0, pos => k { pos := pos, caps := caps }
  | d + 1, pos => tryDown k caps d (pos + 1) <|> k { pos := pos, caps := caps }

theorem den_grp {α} (u : Uni) (s : Array Nat) (i : Nat) (r : Re) (st : St) (k : K α) :
    den u s (.grp i r) st k = den u s r st (fun st' => k { st' with caps := (i, st.pos, st'.pos) :: st'.caps }) := by
  simp [den]

theorem den_any {α} (u : Uni) (s : Array Nat) (st : St) (k : K α) :
    den u s (.any true) st k = if st.pos < s.size then k { st with pos := st.pos + 1 } else none := by
  simp [den]

/-- the greedy `.*` (DOTALL) tries its continuation at the end of the input first, then one character earlier, … -/
theorem star_any {α} (s : Array Nat) (body : M α)
    (hbody : ∀ st k', body st k' = if st.pos < s.size then k' { st with pos := st.pos + 1 } else none)
    (k : K α) (caps : Caps) :
    ∀ (d pos fuel cnt : Nat), pos + d = s.size → d + 1 ≤ fuel →
      repM true body 0 none fuel cnt { pos := pos, caps := caps } k = tryDown k caps d pos := by
  intro d
  induction d with
  | zero =>
    intro pos fuel cnt hp hf
    cases fuel with
    | zero => omega
    | succ f =>
      have hlt : ¬ pos < s.size := by omega
      simp [repM, repMore, canMore, hbody, hlt, tryDown]
  | succ d ih =>
    intro pos fuel cnt hp hf
    cases fuel with
    | zero => omega
    | succ f =>
      have hlt : pos < s.size := by omega
      have := ih (pos + 1) f (cnt + 1) (by omega) (by omega)
      simp only [repM, repMore, canMore, hbody, hlt, if_true, Nat.not_lt_zero, if_false,
        Nat.lt_add_one, decide_true, Bool.true_or, tryDown, this]

/-- the continuation the regex runs after `.*`: a `}` here ends the match -/
def closeK (s : Array Nat) (i : Nat) : K St := fun st =>
  if s[st.pos]? = some 125 then
    some { pos := st.pos + 1, caps := (1, i + 1, st.pos + 1) :: (2, i + 2, st.pos) :: st.caps }
  else none

theorem matchAt_shape (u : Uni) (s : Array Nat) (i : Nat) :
    matchAt u s bracesReqShape i =
      if s[i]? = some 36 then
        if s[i + 1]? = some 123 then
          if i + 2 ≤ s.size then tryDown (closeK s i) [] (s.size - (i + 2)) (i + 2) else none
        else none
      else none := by
  unfold matchAt bracesReqShape
  rw [den_seq, den_chr_opt]
  by_cases h0 : s[i]? = some 36
  · simp only [h0, if_true]
    rw [den_grp, den_seq, den_chr_opt]
    by_cases h1 : s[i + 1]? = some 123
    · simp only [h1, if_true]
      have hsz : i + 2 ≤ s.size := by
        rcases Nat.lt_or_ge (i + 1) s.size with h | h
        · omega
        · have : s[i + 1]? = none := Array.getElem?_eq_none (by omega)
          rw [this] at h1; cases h1
      simp only [hsz, if_true]
      rw [den_seq, den_grp, den_rep]
      rw [star_any s (den u s (.any true)) (den_any u s) _ [] (s.size - (i + 2)) (i + 2) _ 0 (by omega) (by simp)]
      congr 1
      funext st
      simp only [den_chr_opt, closeK]
    · simp only [h1, if_false]
  · simp only [h0, if_false]

/-- no `}` from `pos` on: every try fails -/
theorem tryDown_none (s : Array Nat) (i : Nat) :
    ∀ (d pos : Nat), pos + d = s.size → (∀ p, pos ≤ p → p < s.size → s[p]? ≠ some 125) →
      tryDown (closeK s i) [] d pos = none := by
  intro d
  induction d with
  | zero =>
    intro pos hp _
    have : s[pos]? = none := Array.getElem?_eq_none (by omega)
    simp [tryDown, closeK, this]
  | succ d ih =>
    intro pos hp hno
    simp only [tryDown]
    rw [ih (pos + 1) (by omega) (fun p hp1 hp2 => hno p (by omega) hp2)]
    have := hno pos (Nat.le_refl _) (by omega)
    simp [closeK, this]

/-- the last `}` at `q`: that is where the match ends -/
theorem tryDown_last (s : Array Nat) (i q : Nat) (hq : s[q]? = some 125)
    (hafter : ∀ p, q < p → p < s.size → s[p]? ≠ some 125) :
    ∀ (d pos : Nat), pos + d = s.size → pos ≤ q →
      tryDown (closeK s i) [] d pos = some { pos := q + 1, caps := [(1, i + 1, q + 1), (2, i + 2, q)] } := by
  have hqs : q < s.size := by
    rcases Nat.lt_or_ge q s.size with h | h
    · exact h
    · have : s[q]? = none := Array.getElem?_eq_none (by omega)
      rw [this] at hq; cases hq
  intro d
  induction d with
  | zero => intro pos hp hle; omega
  | succ d ih =>
    intro pos hp hle
    simp only [tryDown]
    by_cases hpq : pos = q
    · subst hpq
      rw [tryDown_none s i d (pos + 1) (by omega) (fun p hp1 hp2 => hafter p (by omega) hp2)]
      simp [closeK, hq]
    · rw [ih (pos + 1) (by omega) (by omega)]
      rfl

/-- **the braces regex on a text**: the first match is at the first `$` that is followed by `{` … `}`; it ends after the
last `}` of the text -/
theorem search_braces (u : Uni) (pre b1 b2 : Str) (hpre : 36 ∉ pre) (hb2 : 125 ∉ b2) :
    search u (pre ++ 36 :: 123 :: (b1 ++ 125 :: b2)).toArray bracesReqShape =
      some (pre.length, { pos := pre.length + 2 + b1.length + 1,
                          caps := [(1, pre.length + 1, pre.length + 2 + b1.length + 1),
                                   (2, pre.length + 2, pre.length + 2 + b1.length)] }) := by
  generalize hT : pre ++ 36 :: 123 :: (b1 ++ 125 :: b2) = T
  have hlen : T.length = pre.length + 2 + b1.length + 1 + b2.length := by
    rw [← hT]; simp only [List.length_append, List.length_cons]; omega
  have hget : ∀ p, T.toArray[p]? = T[p]? := fun p => List.getElem?_toArray
  -- no match before the `$`
  have hbefore : ∀ i, i < pre.length → matchAt u T.toArray bracesReqShape i = none := by
    intro i hi
    rw [matchAt_shape]
    have : T.toArray[i]? ≠ some 36 := by
      rw [hget, ← hT, List.getElem?_append_left hi]
      intro h
      exact hpre (List.mem_of_getElem? h)
    rw [if_neg this]
  -- the match at the `$`
  have hat : matchAt u T.toArray bracesReqShape pre.length =
      some { pos := pre.length + 2 + b1.length + 1,
             caps := [(1, pre.length + 1, pre.length + 2 + b1.length + 1), (2, pre.length + 2, pre.length + 2 + b1.length)] } := by
    rw [matchAt_shape]
    have h0 : T.toArray[pre.length]? = some 36 := by
      rw [hget, ← hT]; simp
    have h1 : T.toArray[pre.length + 1]? = some 123 := by
      rw [hget, ← hT, List.getElem?_append_right (by omega)]; simp
    have hq : T.toArray[pre.length + 2 + b1.length]? = some 125 := by
      rw [hget, ← hT, List.getElem?_append_right (by omega)]
      have : pre.length + 2 + b1.length - pre.length = b1.length + 2 := by omega
      rw [this]
      simp
    have hafter : ∀ p, pre.length + 2 + b1.length < p → p < T.toArray.size → T.toArray[p]? ≠ some 125 := by
      intro p hp1 hp2
      rw [hget, ← hT, List.getElem?_append_right (by omega)]
      have : p - pre.length = (p - pre.length - 2 - b1.length - 1) + 1 + b1.length + 2 := by omega
      rw [this]
      simp only [List.getElem?_cons_succ]
      rw [List.getElem?_append_right (by omega)]
      have h2 : p - pre.length - 2 - b1.length - 1 + 1 + b1.length - b1.length = (p - pre.length - 2 - b1.length - 1) + 1 := by omega
      rw [h2, List.getElem?_cons_succ]
      intro h
      exact hb2 (List.mem_of_getElem? h)
    have hsz : pre.length + 2 ≤ T.toArray.size := by simp [hlen]; omega
    simp only [h0, h1, if_true, hsz]
    exact tryDown_last T.toArray pre.length (pre.length + 2 + b1.length) hq hafter _ _ (by simp [hlen]; omega) (by omega)
  -- the search loop
  have hloop : ∀ (n i fuel : Nat), i + n = pre.length → n + 1 ≤ fuel →
      searchFrom u T.toArray bracesReqShape fuel i = some (pre.length, {
        pos := pre.length + 2 + b1.length + 1,
        caps := [(1, pre.length + 1, pre.length + 2 + b1.length + 1), (2, pre.length + 2, pre.length + 2 + b1.length)] }) := by
    intro n
    induction n with
    | zero =>
      intro i fuel hi hf
      cases fuel with
      | zero => omega
      | succ f =>
        have : i = pre.length := by omega
        subst this
        have hsz : ¬ pre.length > T.toArray.size := by simp [hlen]; omega
        simp only [searchFrom, hsz, if_false, hat]
    | succ n ih =>
      intro i fuel hi hf
      cases fuel with
      | zero => omega
      | succ f =>
        have hsz : ¬ i > T.toArray.size := by simp [hlen]; omega
        simp only [searchFrom, hsz, if_false, hbefore i (by omega)]
        exact ih (i + 1) f (by omega) (by omega)
  unfold search
  exact hloop pre.length 0 _ (by omega) (by simp [hlen]; omega)

/-- … and a text without `$` has no match -/
theorem search_no_dollar (u : Uni) (t : Str) (ht : 36 ∉ t) : search u t.toArray bracesReqShape = none := by
  have hnone : ∀ i, matchAt u t.toArray bracesReqShape i = none := by
    intro i
    rw [matchAt_shape]
    have : t.toArray[i]? ≠ some 36 := by
      rw [List.getElem?_toArray]
      intro h
      exact ht (List.mem_of_getElem? h)
    rw [if_neg this]
  have hloop : ∀ (fuel i : Nat), searchFrom u t.toArray bracesReqShape fuel i = none := by
    intro fuel
    induction fuel with
    | zero => intro i; rfl
    | succ f ih =>
      intro i
      simp only [searchFrom, hnone, ih]
      split <;> rfl
  exact hloop _ _

end ChamVerif.C06Loop

import ChamVerif.StaticHyp
import ChamProofs.Props.C03
import ChamProofs.Props.C06
/-! # C03 — a statement-free document that compiles renders to itself (on the static path of the model)

The element parser keeps every token; the emitters re-assemble every tag from its pieces.  Under the decidable
per-token check `TokOK` (the dissection of each tag token and processing instruction loses nothing — checked on
every document by the `dissect` operation of the driver, and proved sufficient by `C03_dissect`) the rendering of a
document without `$`, `<!--!`/`<!--?` comments and language markup is its source. -/
namespace ChamVerif

theorem rawItems_append : ∀ (a b : List Item), rawItems (a ++ b) = rawItems a ++ rawItems b
  | [], b => by simp [rawItems]
  | i :: is, b => by simp [rawItems, rawItems_append is b]

theorem parseTag_tag (rx : Rx) (t : Tok) (m : NsMap) (r : Bool) (e : Elem) (m' : NsMap)
    (h : parseTag rx t m r = .ok (e, m')) : matchTagWith rx t = some e.tag := by
  unfold parseTag at h
  cases hm : matchTagWith rx t with
  | none => simp [hm] at h
  | some g =>
    simp only [hm, bind, Except.bind] at h
    cases hu : unpackAttributes g.attrs (updateNamespace g.attrs m)
        (((updateNamespace g.attrs m).get ((splitColon g.name.str).map (·.1))).getD XML_NS) r with
    | error err => simp [hu] at h
    | ok ns =>
      simp only [hu, pure, Except.pure, Except.ok.injEq, Prod.mk.injEq] at h
      rw [← h.1]

/-- **the parser keeps every token**: one step -/
theorem parseToken_raw (rx : Rx) (r : Bool) (ps ps' : PState) (t : Tok) (hok : tokOK rx t = true)
    (h : parseToken rx r ps t = .ok ps') : rawItems ps'.queue.toList = rawItems ps.queue.toList ++ t.str := by
  unfold parseToken at h
  unfold tokOK at hok
  cases hk : identify rx t with
  | error e => simp [hk, bind, Except.bind] at h
  | ok kind =>
    simp only [hk, bind, Except.bind] at h
    simp only [hk] at hok
    cases kind with
    | text => simp only [pure, Except.pure, Except.ok.injEq] at h; subst h; simp [rawItems_append, rawItems, rawItem]
    | comment => simp only [pure, Except.pure, Except.ok.injEq] at h; subst h; simp [rawItems_append, rawItems, rawItem]
    | cdata => simp only [pure, Except.pure, Except.ok.injEq] at h; subst h; simp [rawItems_append, rawItems, rawItem]
    | declaration => simp only [pure, Except.pure, Except.ok.injEq] at h; subst h; simp [rawItems_append, rawItems, rawItem]
    | error => simp only [pure, Except.pure, Except.ok.injEq] at h; subst h; simp [rawItems_append, rawItems, rawItem]
    | pi =>
      simp only at h hok
      cases hm : matchAt Gen.uni t.str.toArray rx.pi 0 with
      | none =>
        simp only [hm, pure, Except.pure, Except.ok.injEq] at h
        subst h; simp [rawItems_append, rawItems, rawItem]
      | some st =>
        simp only [hm, pure, Except.pure, Except.ok.injEq] at h hok
        subst h
        have := eq_of_beq hok
        rw [← this]
        simp [rawItems_append, rawItems, rawItem, List.append_assoc]
    | startTag =>
      simp only at h hok
      generalize ps.namespaces.headD [] = top0 at h
      cases hp : parseTag rx t top0 r with
      | error e => simp [hp] at h
      | ok em =>
        obtain ⟨e, m'⟩ := em
        simp only [hp, pure, Except.pure, Except.ok.injEq] at h
        subst h
        have hg := parseTag_tag rx t _ r e m' hp
        rw [hg] at hok
        have := eq_of_beq hok
        simp [rawItems_append, rawItems, rawItem, this]
    | emptyTag =>
      simp only at h hok
      generalize ps.namespaces.headD [] = top0 at h
      cases hp : parseTag rx t top0 r with
      | error e => simp [hp] at h
      | ok em =>
        obtain ⟨e, m'⟩ := em
        simp only [hp, pure, Except.pure, Except.ok.injEq] at h
        subst h
        have hg := parseTag_tag rx t _ r e m' hp
        rw [hg] at hok
        have := eq_of_beq hok
        simp [rawItems_append, rawItems, rawItem, this]
    | xmlDecl =>
      simp only at h hok
      generalize ps.namespaces.headD [] = top0 at h
      cases hp : parseTag rx t top0 r with
      | error e => simp [hp] at h
      | ok em =>
        obtain ⟨e, m'⟩ := em
        simp only [hp, pure, Except.pure, Except.ok.injEq] at h
        subst h
        have hg := parseTag_tag rx t _ r e m' hp
        rw [hg] at hok
        have := eq_of_beq hok
        simp [rawItems_append, rawItems, rawItem, this]
    | endTag =>
      simp only at h hok
      cases hns : ps.namespaces with
      | nil => simp [hns] at h
      | cons top restNs =>
        simp only [hns] at h
        cases hp : parseTag rx t top r with
        | error e => simp [hp] at h
        | ok em =>
          obtain ⟨e, m'⟩ := em
          simp only [hp] at h
          have hg := parseTag_tag rx t _ r e m' hp
          rw [hg] at hok
          have hend := eq_of_beq hok
          cases hpi : popIndex e.tag.name.str ps.index with
          | none => simp [hpi] at h
          | some pi =>
            obtain ⟨pos, idx'⟩ := pi
            simp only [hpi] at h
            cases hq : ps.queue[pos]? with
            | none => simp [hq] at h
            | some it =>
              cases it with
              | startTag s =>
                simp only [hq, pure, Except.pure, Except.ok.injEq] at h
                subst h
                have hlt : pos < ps.queue.size := by
                  rcases Array.getElem?_eq_some_iff.mp hq with ⟨hlt, _⟩; exact hlt
                have hget : ps.queue.toList[pos]? = some (.startTag s) := by simpa using hq
                have hl : pos < ps.queue.toList.length := by simpa using hlt
                have hv : ps.queue.toList[pos] = .startTag s := by
                  have := List.getElem?_eq_some_iff.mp hget
                  exact this.2
                have hsplit : ps.queue.toList = ps.queue.toList.take pos ++ (.startTag s) :: ps.queue.toList.drop (pos + 1) := by
                  conv => lhs; rw [← List.take_append_drop pos ps.queue.toList]
                  rw [List.drop_eq_getElem_cons hl, hv]
                simp only [Array.toList_push, Array.take_eq_extract, Array.toList_extract, rawItems_append, rawItems, rawItem, List.append_nil]
                conv => rhs; rw [hsplit]
                simp [rawItems_append, rawItems, rawItem, hend, List.extract_eq_drop_take]
              | _ => simp [hq] at h

theorem foldlM_raw (rx : Rx) (r : Bool) : ∀ (toks : List Tok) (ps ps' : PState), (∀ t ∈ toks, tokOK rx t = true) →
    toks.foldlM (parseToken rx r) ps = .ok ps' →
    rawItems ps'.queue.toList = rawItems ps.queue.toList ++ (toks.map (·.str)).flatten := by
  intro toks
  induction toks with
  | nil =>
    intro ps ps' _ h
    simp only [List.foldlM_nil, pure, Except.pure, Except.ok.injEq] at h
    subst h; simp
  | cons t rest ih =>
    intro ps ps' hok h
    simp only [List.foldlM_cons, bind, Except.bind] at h
    cases h1 : parseToken rx r ps t with
    | error e => simp [h1] at h
    | ok ps1 =>
      simp only [h1] at h
      have ha := parseToken_raw rx r ps ps1 t (hok t (List.mem_cons_self ..)) h1
      have hb := ih ps1 ps' (fun x hx => hok x (List.mem_cons_of_mem _ hx)) h
      rw [hb, ha]
      simp [List.append_assoc]

/-- **the element parser keeps every token** (under the per-token dissection check): the items' source text is the
concatenation of the tokens -/
theorem parseTokens_raw (rx : Rx) (r : Bool) (toks : List Tok) (items : List Item) (hok : ∀ t ∈ toks, tokOK rx t = true)
    (h : parseTokens rx r toks = .ok items) : rawItems items = (toks.map (·.str)).flatten := by
  unfold parseTokens at h
  simp only [bind, Except.bind] at h
  cases hf : toks.foldlM (parseToken rx r) { queue := #[], index := [], namespaces := [defaultNamespaces] } with
  | error e => simp [hf] at h
  | ok ps =>
    simp only [hf, pure, Except.pure, Except.ok.injEq] at h
    subst h
    have := foldlM_raw rx r toks _ ps hok hf
    simpa [rawItems] using this

/-! ## the emitters -/

theorem hasInterp_dollar : ∀ (s : Str), hasInterp s = true → 36 ∈ s := by
  intro s
  induction s with
  | nil => intro h; simp [hasInterp] at h
  | cons c r ih =>
    intro h
    by_cases hc : c = 36
    · simp [hc]
    · unfold hasInterp at h
      split at h
      · rename_i heq; cases heq
      · rename_i r' heq
        injection heq with h1 _
        exact absurd h1 hc
      · rename_i c' r' _ heq
        injection heq with _ h2
        subst h2
        exact List.mem_cons_of_mem _ (ih h)

theorem staticText_clean (s : Str) (h : s.contains 36 = false) : staticText s = .ok s := by
  have hn : 36 ∉ s := by simpa using h
  unfold staticText
  have hi : hasInterp s = false := by
    cases hh : hasInterp s
    · rfl
    · exact absurd (hasInterp_dollar s hh) hn
  simp [hi, undouble, undouble_no_dollar s hn]

theorem staticStart_clean (e : Elem) (h : elemClean e = true) : staticStart e = .ok e.tag.reassemble := by
  unfold elemClean at h
  simp only [Bool.and_eq_true, Bool.not_eq_eq_eq_not, Bool.not_true] at h
  obtain ⟨⟨⟨h1, h2⟩, h3⟩, h4⟩ := h
  have h1' : e.ns ∉ dropNs := by simpa using h1
  unfold staticStart
  cases hs : e.tag.suffix with
  | none => simp [hs] at h4
  | some sfx =>
    simp only [List.elem_eq_contains, List.contains_eq_mem] at h2
    simp [h1', h2, h3, hs, bind, Except.bind, pure, Except.pure]

mutual
theorem staticItem_clean (q : Quirks) (hq : q.endTagSpaceTwice = false) : ∀ (i : Item), cleanItem i = true →
    staticItem q i = .ok (rawItem i)
  | .text t, h => by
    simp only [cleanItem, Bool.not_eq_eq_eq_not, Bool.not_true] at h
    simp [staticItem, rawItem, staticText_clean t.str h]
  | .comment t, h => by
    simp only [cleanItem, Bool.and_eq_true, Bool.not_eq_eq_eq_not, Bool.not_true] at h
    simp [staticItem, rawItem, h.1.1, h.1.2, h.2, pure, Except.pure]
  | .cdata t, h => by
    simp only [cleanItem, Bool.not_eq_eq_eq_not, Bool.not_true] at h
    simp [staticItem, rawItem, h, pure, Except.pure]
  | .dflt t, _ => by simp [staticItem, rawItem, pure, Except.pure]
  | .pi name text, h => by
    simp only [cleanItem, Bool.and_eq_true, Bool.not_eq_eq_eq_not, Bool.not_true] at h
    have hne : ¬ name.str = lit "python" := by
      intro e; have := h.1; simp [e] at this
    have h2 : (lit "<?" ++ (name.str ++ (text.str ++ lit "?>"))).contains 36 = false := by
      simpa [List.append_assoc] using h.2
    simp [staticItem, rawItem, hne, staticText_clean _ h2]
  | .startTag e, h => by
    simp only [cleanItem] at h
    simp [staticItem, rawItem, staticStart_clean e h]
  | .element s e cs, h => by
    simp only [cleanItem, Bool.and_eq_true] at h
    have hcs := staticItems_clean q hq cs h.2
    cases e with
    | none => simp [staticItem, rawItem, staticStart_clean s h.1, hcs, bind, Except.bind, pure, Except.pure]
    | some en => simp [staticItem, rawItem, staticStart_clean s h.1, hcs, staticEnd, hq, bind, Except.bind, pure, Except.pure]
theorem staticItems_clean (q : Quirks) (hq : q.endTagSpaceTwice = false) : ∀ (is : List Item), cleanItems is = true →
    staticItems q is = .ok (rawItems is)
  | [], _ => by simp [staticItems, rawItems, pure, Except.pure]
  | i :: is, h => by
    simp only [cleanItems, Bool.and_eq_true] at h
    simp [staticItems, rawItems, staticItem_clean q hq i h.1, staticItems_clean q hq is h.2, bind, Except.bind, pure, Except.pure]
end

/-- **C03 (a statement-free document that compiles renders to itself)**: on the static path of the model, for the regexes
regenerated from /repo on this run.  If every token of the (newline-normalised) source dissects without loss
(`tokOK`, a decidable per-token check) and the parsed document asks for no evaluation (`cleanItems`), the rendering is
the source — tag spelling, attribute order, quoting, white space inside tags, comments, CDATA, doctype, processing
instructions and character entities included, whatever the document is. -/
theorem C03_static_identity (q : Quirks) (hq : q.endTagSpaceTwice = false) (r : Bool) (src : Str) (items : List Item)
    (hparse : parseTokens Rx.live r (iterXmlWith Rx.live.xmlSpe (if isXmlDoc src then src else normalizeNewlines src)) = .ok items)
    (htok : ∀ t ∈ iterXmlWith Rx.live.xmlSpe (if isXmlDoc src then src else normalizeNewlines src), tokOK Rx.live t = true)
    (hclean : cleanItems items = true) :
    staticRender q r src = .ok (if isXmlDoc src then src else normalizeNewlines src) := by
  unfold staticRender staticRenderWith
  simp only [hparse, liftC, bind, Except.bind]
  rw [staticItems_clean q hq items hclean, parseTokens_raw Rx.live r _ items htok hparse]
  have := tokens_concat_of_ok Gen.XML_SPE xml_spe_ok (if isXmlDoc src then src else normalizeNewlines src)
  exact congrArg Except.ok this

end ChamVerif

namespace ChamVerif

/-- … in one piece: whenever the decidable hypotheses hold, the static rendering is the (normalised) source -/
theorem C03_static_identity' (q : Quirks) (hq : q.endTagSpaceTwice = false) (r : Bool) (src : Str)
    (h : staticHyp r src = true) :
    staticRender q r src = .ok (if isXmlDoc src then src else normalizeNewlines src) := by
  unfold staticHyp at h
  simp only [Bool.and_eq_true, List.all_eq_true] at h
  obtain ⟨htok, hrest⟩ := h
  cases hp : parseTokens Rx.live r (iterXmlWith Rx.live.xmlSpe (if isXmlDoc src then src else normalizeNewlines src)) with
  | error e => simp [hp] at hrest
  | ok items =>
    simp only [hp] at hrest
    exact C03_static_identity q hq r src items hp htok hrest

/-- non-vacuity: a document with attributes in three quoting styles, an entity, a comment, an empty element and
CR/LF line ends meets the hypotheses (decided by kernel evaluation with the regenerated regexes) -/
theorem C03_static_hyp_example :
    staticHyp true (lit "<div class=\"a\" id='b' c=d>x &amp; y<!-- c -->\r\n<br />z</div>") = true := by
  decide +kernel

end ChamVerif

import ChamVerif.Pipeline
/-! # C12 — render errors keep their type and name the failing expression and position -/
namespace ChamVerif

/-- an expression-level computation never *clears* `__token` -/
def KeepsToken {α} (m : XM α) : Prop :=
  ∀ x, x.token.isSome →
    (∀ a x', m x = .ok a x' → x'.token.isSome) ∧ (∀ e x', m x = .raised e x' → x'.token.isSome)

theorem keeps_pure {α} (a : α) : KeepsToken (pure a : XM α) := by
  intro x hx; exact ⟨fun a' x' h => by cases h; exact hx, fun e x' h => by cases h⟩

theorem keeps_bind {α β} (m : XM α) (f : α → XM β) (hm : KeepsToken m) (hf : ∀ a, KeepsToken (f a)) :
    KeepsToken (m >>= f) := by
  intro x hx
  obtain ⟨h1, h2⟩ := hm x hx
  simp only [bind]
  constructor
  · intro b x' h
    cases hmx : m x with
    | ok a x1 => simp only [hmx] at h; exact ((hf a) x1 (h1 a x1 hmx)).1 b x' h
    | raised e x1 => simp [hmx] at h
    | unsupported w => simp [hmx] at h
  · intro e x' h
    cases hmx : m x with
    | ok a x1 => simp only [hmx] at h; exact ((hf a) x1 (h1 a x1 hmx)).2 e x' h
    | raised e1 x1 => simp only [hmx] at h; cases h; exact h2 _ _ hmx
    | unsupported w => simp [hmx] at h

theorem keeps_xSetToken (t : Tok) : KeepsToken (xSetToken t) := by
  intro x _; exact ⟨fun a x' h => by cases h; rfl, fun e x' h => by cases h⟩

theorem keeps_xLiftR {α} (r : R α) : KeepsToken (xLiftR r) := by
  intro x hx
  cases r <;> exact ⟨fun a x' h => by simp [xLiftR] at h; try (obtain ⟨_, h⟩ := h; subst h; exact hx),
                    fun e x' h => by simp [xLiftR] at h; try (obtain ⟨_, h⟩ := h; subst h; exact hx)⟩

theorem keeps_runEM {α} (m : EM α) : KeepsToken (runEM m) := by
  intro x hx
  unfold runEM
  cases hm : m { log := x.log } with
  | mk r es =>
    cases r with
    | ok a => exact ⟨fun a' x' h => by simp at h; obtain ⟨_, h⟩ := h; subst h; exact hx, fun e x' h => by simp at h⟩
    | raised e => exact ⟨fun a' x' h => by simp at h, fun e' x' h => by simp at h; obtain ⟨_, h⟩ := h; subst h; exact hx⟩
    | unsupported w => exact ⟨fun a' x' h => by simp at h, fun e' x' h => by simp at h⟩

theorem keeps_unsupported {α} (w : String) : KeepsToken (xUnsupported w : XM α) := by
  intro x _
  constructor
  · intro a x' h; cases h
  · intro e x' h; cases h

theorem keeps_offerCall (cfg : ECfg) (env : Env) (v : Val) : KeepsToken (offerCall cfg env v) := by
  intro x hx
  unfold offerCall
  constructor
  · intro a x' h
    split at h <;> (cases h; exact hx)
  · intro e x' h
    split at h <;> cases h

theorem keeps_convertTextX (cfg : ECfg) (env : Env) (esc : Esc) (d : Option Str) (v : Val) :
    KeepsToken (convertTextX cfg env esc d v) := by
  unfold convertTextX
  split
  · exact keeps_unsupported _
  · exact keeps_bind _ _ (keeps_offerCall cfg env v) (fun _ => keeps_xLiftR _)

theorem keeps_convPartX (cfg : ECfg) (env : Env) (esc : Esc) (d : Option Str) (lf : Bool) (v : Val) :
    KeepsToken (convPartX cfg env esc d lf v) := by
  unfold convPartX
  split
  · exact keeps_convertTextX cfg env esc d v
  · refine keeps_bind _ _ (keeps_xLiftR _) (fun b => ?_)
    split
    · exact keeps_convertTextX cfg env esc d v
    · exact keeps_pure _

/-- the TALES evaluator (all four mutually recursive functions) never clears the token -/
theorem keeps_evalT (cfg : ECfg) (al : List (Str × Val)) (env : Env) : ∀ (f : Nat),
    (∀ e esc d, KeepsToken (evalT cfg al env f e esc d)) ∧
    (∀ alts esc d, KeepsToken (evalAlts cfg al env f alts esc d)) ∧
    (∀ ps esc d lf, KeepsToken (evalParts cfg al env f ps esc d lf)) ∧
    (∀ ps esc d lf, KeepsToken (partsText cfg al env f ps esc d lf)) := by
  intro f
  induction f with
  | zero =>
    refine ⟨?_, ?_, ?_, ?_⟩ <;> intros <;> simp only [evalT, evalAlts, evalParts, partsText] <;> exact keeps_unsupported _
  | succ f ih =>
    obtain ⟨ihT, ihA, ihP, ihX⟩ := ih
    refine ⟨?_, ?_, ?_, ?_⟩
    · intro e esc d
      cases e with
      | unsupported w => simp only [evalT]; exact keeps_unsupported _
      | py alts => simp only [evalT]; exact ihA alts esc d
      | not_ e tok =>
        simp only [evalT]
        exact keeps_bind _ _ (keeps_xSetToken tok) (fun _ => keeps_bind _ _ (ihT e esc d)
          (fun v => keeps_bind _ _ (keeps_xLiftR _) (fun b => keeps_pure _)))
      | exists_ e =>
        simp only [evalT]
        intro x hx
        obtain ⟨h1, h2⟩ := ihT e esc d x hx
        constructor
        · intro a x' h
          cases hm : evalT cfg al env f e esc d x with
          | ok v x1 => simp only [hm] at h; cases h; exact h1 _ _ hm
          | raised ex x1 =>
            simp only [hm] at h
            split at h
            · cases h; exact h2 _ _ hm
            · cases h
          | unsupported w => simp [hm] at h
        · intro ex' x' h
          cases hm : evalT cfg al env f e esc d x with
          | ok v x1 => simp [hm] at h
          | raised ex x1 =>
            simp only [hm] at h
            split at h
            · cases h
            · cases h; exact h2 _ _ hm
          | unsupported w => simp [hm] at h
      | structure_ e tok =>
        simp only [evalT]
        refine keeps_bind _ _ (keeps_xSetToken tok) (fun _ => keeps_bind _ _ (ihT e esc d) (fun v => ?_))
        cases v <;> first
          | exact keeps_pure _
          | exact keeps_bind _ _ (keeps_xLiftR _) (fun s => keeps_pure _)
      | str parts =>
        simp only [evalT]
        refine keeps_bind _ _ (ihP parts esc d true) (fun r => ?_)
        cases r <;> exact keeps_pure _
    · intro alts esc d
      cases alts with
      | nil => simp only [evalAlts]; exact keeps_unsupported _
      | cons a rest =>
        intro x hx
        simp only [evalAlts]
        have halt : KeepsToken (fun x => match a with
            | .expr e => runEM (evalP (mkECtx cfg al env) 200 e) x
            | .nested e tok => (do xSetToken tok; evalT cfg al env f e esc d) x) := by
          cases a with
          | expr e => exact keeps_runEM _
          | nested e tok => exact keeps_bind _ _ (keeps_xSetToken tok) (fun _ => ihT e esc d)
        obtain ⟨h1, h2⟩ := halt x hx
        constructor
        · intro v x' h
          split at h
          · rename_i v1 x1 hr; cases h; exact h1 _ _ hr
          · cases h
          · rename_i ex x1 hr
            split at h
            · cases h
            · split at h
              · exact ((ihA rest esc d) x1 (h2 _ _ hr)).1 _ _ h
              · cases h
        · intro ex' x' h
          split at h
          · cases h
          · cases h
          · rename_i ex x1 hr
            split at h
            · cases h; exact h2 _ _ hr
            · split at h
              · exact ((ihA rest esc d) x1 (h2 _ _ hr)).2 _ _ h
              · cases h; exact h2 _ _ hr
    · intro ps esc d lf
      simp only [evalParts]
      split
      · exact keeps_pure _
      · rename_i e tok t
        exact keeps_bind _ _ (keeps_xSetToken tok) (fun _ => keeps_bind _ _ (ihT e esc d) (fun v => keeps_convPartX cfg env esc d lf v))
      · exact keeps_bind _ _ (ihX ps esc d lf) (fun rs => keeps_pure _)
    · intro ps esc d lf
      cases ps with
      | nil => simp only [partsText]; exact keeps_pure _
      | cons p rest =>
        simp only [partsText]
        cases p with
        | lit s =>
          exact keeps_bind _ _ (keeps_pure _) (fun a => keeps_bind _ _ (ihX rest esc d lf) (fun b => keeps_pure _))
        | expr e tok t =>
          exact keeps_bind _ _ (keeps_xSetToken tok) (fun _ => keeps_bind _ _ (ihT e esc d)
            (fun v => keeps_bind _ _ (keeps_convPartX cfg env esc d lf v) (fun t => keeps_bind _ _ (keeps_pure _)
              (fun a => keeps_bind _ _ (ihX rest esc d lf) (fun b => keeps_pure _)))))

/-- **C12 (token bookkeeping)**: evaluating a `Value` sets `__token` to the expression's position
before any Python code runs: if it raises, the token is set (so the render function's handler can
record the failing expression). -/
theorem C12_token_set_when_value_raises (cfg : ECfg) (al : List (Str × Val)) (env : Env) (tok : Tok) (esc : Esc)
    (d : Option Str) (x : XState) (e : Exc) (x' : XState)
    (h : evalValue cfg al env tok esc d x = .raised e x') : x'.token.isSome := by
  unfold evalValue compileAt at h
  cases hc : compileTales cfg.tc 64 tok with
  | ok t =>
    simp only [hc, bind, pure] at h
    have hk := (keeps_evalT cfg al env 64).1 t esc d
    have hset : (xSetToken tok x) = .ok () { x with token := some ((Tok.strip tok).pos, (Tok.strip tok).str.length) } := rfl
    simp only [hset] at h
    exact (hk _ rfl).2 e x' h
  | error err =>
    cases err with
    | template cls msg etok =>
      simp only [hc, bind, xSetTokenRaw, xRaise] at h
      cases h; rfl
    | templateNoSrc cls msg t => simp [hc, bind, xUnsupported] at h
    | crash cls => simp [hc, bind, xUnsupported] at h

/-- **C12 (record)**: for an exception in the `Exception` hierarchy (other than `Exception` itself) the
message record is the source text at the token — `source[pos : pos+len]` — with its line and column -/
theorem C12_record (cfg : ECfg) (body : Str) (ex : Exc) (pos len : Nat)
    (h1 : isSubclass cfg ex.cls ["Exception"] = true) (h2 : ex.cls ≠ "Exception") (h3 : ex.cls ≠ "BaseException") :
    errorRecords cfg body ex (some (pos, len)) =
      [{ text := ((cfg.locate pos).1.drop (cfg.locate pos).2).take len,
         line := (Tok.location (cfg.locate pos).1 { str := [], pos := (cfg.locate pos).2 }).1,
         col := (Tok.location (cfg.locate pos).1 { str := [], pos := (cfg.locate pos).2 }).2 }] := by
  simp [errorRecords, h1, h2, h3]

/-- a position is looked up in the template it belongs to; without library templates that is the template itself -/
theorem locate_main (cfg : ECfg) (pos : Nat) (h : cfg.libs = []) : cfg.locate pos = (cfg.src, pos) := by
  simp [ECfg.locate, h]

/-- … and inside library `l` (whose tokens start at `l.base`) it is the offset from `l.base` in that library's source -/
theorem locate_lib (cfg : ECfg) (l : LibTpl) (pos : Nat) (h : cfg.libs = [l]) (h1 : l.base ≤ pos) (h2 : pos < l.base + l.src.length + 1) :
    cfg.locate pos = (l.src, pos - l.base) := by
  simp [ECfg.locate, h, h1, h2]

/-- **C12 (a failure inside a macro of another template)**: the record shows the text, line and column *in that template's
source* — the offset from the library's base position — not in the source of the template being rendered -/
theorem C12_lib_record (cfg : ECfg) (l : LibTpl) (body : Str) (ex : Exc) (pos len : Nat) (hl : cfg.libs = [l])
    (h1 : isSubclass cfg ex.cls ["Exception"] = true) (h2 : ex.cls ≠ "Exception") (h3 : ex.cls ≠ "BaseException")
    (hp1 : l.base ≤ pos) (hp2 : pos < l.base + l.src.length + 1) :
    errorRecords cfg body ex (some (pos, len)) =
      [{ text := (l.src.drop (pos - l.base)).take len,
         line := (Tok.location l.src { str := [], pos := pos - l.base }).1,
         col := (Tok.location l.src { str := [], pos := pos - l.base }).2 }] := by
  rw [C12_record cfg body ex pos len h1 h2 h3, locate_lib cfg l pos hl hp1 hp2]

/-- **C12 (outside the Exception hierarchy)**: KeyboardInterrupt, SystemExit … get no records: they are
not re-typed (the behaviour of /repo after the D-12a fix) -/
theorem C12_base_exception_untouched (cfg : ECfg) (body : Str) (ex : Exc) (tok : Option (Nat × Nat))
    (h : isSubclass cfg ex.cls ["Exception"] = false) : errorRecords cfg body ex tok = [] := by
  simp [errorRecords, h]

end ChamVerif

namespace ChamVerif

/-- **C12 (call sites, innermost first)**: when the body of a macro raises with its `__token` set, the macro function's
handler appends that position to the error list and re-raises; the caller's own `__token` (reset before the call of
an internal macro) is what it was — so the render function's handler, which runs last, adds the outermost record
last -/
theorem C12_macro_records_then_reraises (cfg : ECfg) (al : List (Str × Val)) (f : Nat) (nm : Str) (body : Node)
    (s s' : RState) (ex : Exc) (t : Nat × Nat)
    (hm : lookupAssoc (cfg.macrosOf s.env.topFrame.tid) nm = some body)
    (hb : eval cfg [] f body (macroEnter s.env.topFrame.tid body { s with x := { s.x with token := none } }) = .raised ex s')
    (ht : s'.x.token = some t) :
    ∃ s'', eval cfg al (f + 1) (.useInternal (some nm)) s = .raised ex s'' ∧ s''.errs = s'.errs.push t ∧
      s''.x.token = none ∧ s''.env.own = s.env.own ∧ s''.streams = s'.streams := by
  refine ⟨macroRaise { s with x := { s.x with token := none } } s', ?_, ?_, rfl, rfl, rfl⟩
  · simp [eval, hm, hb]
  · simp [macroRaise, ht]

/-- the records of the message: those of the functions the exception passed through, in the order they were appended
(innermost first), then the render function's own -/
theorem C12_records_order (cfg : ECfg) (src : Str) (ex : Exc) (tok : Nat × Nat) (inner : List (Nat × Nat))
    (h : ¬(ex.cls == "Exception" || ex.cls == "BaseException" || !isSubclass cfg ex.cls ["Exception"]) = true) :
    (errorRecords cfg src ex (some tok) inner).map (·.text) =
      (inner ++ [tok]).map (fun p => ((cfg.locate p.1).1.drop (cfg.locate p.1).2).take p.2) := by
  unfold errorRecords
  simp only [h, if_false, Bool.false_eq_true, List.map_map]
  apply List.map_congr_left
  intro p _
  obtain ⟨a, b⟩ := p
  rfl

/-- **C12 (failure inside a slot filler)**: when the filler of a slot raises with its `__token` set, the record that is
appended is the *filler's* position — the failing expression — and the macro function continues to unwind with its own
`__token` cleared, so that its handler (`macroRaise`) adds nothing of its own: the message names the failing expression
and then the `use-macro` call site, not the last expression the macro happened to evaluate (the behaviour of /repo after
the D-12d fix) -/
theorem C12_filler_records_failing_expression (cfg : ECfg) (al : List (Str × Val)) (f : Nat) (nm : Tok) (node : Node)
    (s s' : RState) (cid : Nat) (cl : Closure) (ex : Exc) (t : Nat × Nat)
    (h : lookupAssoc s.env.topFrame.slotFns (mangleName nm.str) = some (some cid))
    (hc : s.closures[cid]? = some cl)
    (hb : eval cfg cl.al f cl.node (fillerEnter cl s) = .raised ex s')
    (ht : s'.x.token = some t) :
    ∃ s'', eval cfg al (f + 1) (.defineSlot nm node) s = .raised ex s'' ∧ s''.errs = s'.errs.push t ∧
      s''.x.token = none ∧ (fillerEnter cl s).x.token = none ∧
      (∀ caller, (macroRaise caller s'').errs = s''.errs) := by
  refine ⟨fillerRaise s s', ?_, ?_, rfl, rfl, ?_⟩
  · simp [eval, h, hc, hb]
  · simp [fillerRaise, ht]
  · intro caller; simp [macroRaise, fillerRaise]

end ChamVerif

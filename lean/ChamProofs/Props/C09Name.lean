import ChamProofs.Props.C05Eval
/-! # C09 — `macroname` is bound for the use, and only for the use -/
namespace ChamVerif

/-- **C09 (`macroname` is scoped to the use)**: the node the builder makes of a `metal:use-macro` element binds `macroname`
(locally) to the name that was used and then calls the macro; whatever the macro, its slot fillers and nested uses do —
a nested use binds `macroname` to *its* name — when the use has finished, `macroname` is what it was before (the outer
use's name inside another macro's body or filler, undefined on the page) -/
theorem C09_macroname_scoped (cfg : ECfg) (al : List (Str × Val)) (f : Nat) (p : ElemStmts) (macroTok : Tok) (ext : Bool)
    (slots : List (Tok × Node)) (body : List Node) (s s' : RState) (hk : p.kind = .macroUse macroTok ext)
    (h : eval cfg al (f + 3) (p.innerNode slots body) s = .ok () s') :
    s'.env.get (lit "macroname") = s.env.get (lit "macroname") := by
  unfold ElemStmts.innerNode at h
  simp only [hk] at h
  exact C05_local_define_restores cfg al f { str := lit "macroname", pos := 0 } (.const (rsplitSlash macroTok.str))
    (.useExternal (.value macroTok) slots ext) s s' h

end ChamVerif

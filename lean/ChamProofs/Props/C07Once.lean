import ChamProofs.Props.C07
import ChamProofs.Props.C18
import ChamProofs.Props.C01Perm
/-! # C07 — an attribute name is rendered at most once

`prepare_attributes` keeps, next to the list of prepared attributes, an index from lower-cased names to positions.
`Indexed` is the invariant that ties the two together; it holds after each of the three phases (static attributes,
`tal:attributes`, `i18n:attributes`), and it implies that no two entries of the result carry the same name, compared
case-insensitively — provided the start tag itself does not write a name twice. -/
namespace ChamVerif

abbrev PAcc := List PAttr × List (Str × Int)

structure Indexed (acc : PAcc) : Prop where
  keys : (acc.2.map (·.1)).Nodup
  sound : ∀ n i, (n, i) ∈ acc.2 → ∃ k : Nat, i = (k : Int) ∧ ∃ p, acc.1[k]? = some p ∧ ∃ nm, p.name = some nm ∧ lowerStr nm = n
  complete : ∀ (k : Nat) p nm, acc.1[k]? = some p → p.name = some nm → (lowerStr nm, (k : Int)) ∈ acc.2

theorem indexed_nil : Indexed (([], []) : PAcc) :=
  ⟨List.nodup_nil, fun _ _ h => (by cases h), fun k p nm h => (by simp at h)⟩

theorem assoc_unique {l : List (Str × Int)} (h : (l.map (·.1)).Nodup) {n : Str} {i j : Int}
    (hi : (n, i) ∈ l) (hj : (n, j) ∈ l) : i = j := by
  induction l with
  | nil => cases hi
  | cons x l ih =>
    simp only [List.map_cons, List.nodup_cons] at h
    rcases List.mem_cons.mp hi with h1 | h1 <;> rcases List.mem_cons.mp hj with h2 | h2
    · rw [← h1] at h2; exact ((Prod.mk.inj h2).2).symm
    · exfalso; apply h.1; rw [← h1]; exact List.mem_map.mpr ⟨(n, j), h2, rfl⟩
    · exfalso; apply h.1; rw [← h2]; exact List.mem_map.mpr ⟨(n, i), h1, rfl⟩
    · exact ih h.2 h1 h2

/-- **at most once**: two entries with the same name (case-insensitively) are the same entry -/
theorem Indexed.once {acc : PAcc} (h : Indexed acc) (k k' : Nat) (p p' : PAttr) (nm nm' : Str)
    (hk : acc.1[k]? = some p) (hk' : acc.1[k']? = some p') (hn : p.name = some nm) (hn' : p'.name = some nm')
    (heq : lowerStr nm = lowerStr nm') : k = k' := by
  have h1 := h.complete k p nm hk hn
  have h2 := h.complete k' p' nm' hk' hn'
  rw [← heq] at h2
  have := assoc_unique h.keys h1 h2
  omega

theorem filter_ne_self (l : List (Str × Int)) (n : Str) (h : n ∉ l.map (·.1)) : l.filter (·.1 != n) = l := by
  rw [List.filter_eq_self]
  intro x hx
  have : x.1 ≠ n := fun he => h (he ▸ List.mem_map.mpr ⟨x, hx, rfl⟩)
  simpa using this

theorem lookupNorm_none {l : List (Str × Int)} {n : Str} (h : prepareAttributes.lookupNorm l n = none) :
    n ∉ l.map (·.1) := by
  unfold prepareAttributes.lookupNorm at h
  simp only [Option.map_eq_none_iff, List.find?_eq_none] at h
  intro hm
  obtain ⟨x, hx, hxn⟩ := List.mem_map.mp hm
  exact h x hx (by simp [hxn])

theorem lookupNorm_some {l : List (Str × Int)} {n : Str} {i : Int} (h : prepareAttributes.lookupNorm l n = some i) :
    (n, i) ∈ l := by
  unfold prepareAttributes.lookupNorm at h
  simp only [Option.map_eq_some_iff] at h
  obtain ⟨x, hx, hxi⟩ := h
  have hm := List.mem_of_find?_eq_some hx
  have hp := List.find?_some hx
  have : x.1 = n := by simpa using hp
  rw [← this, ← hxi]
  exact hm

/-- a new named entry, under a name the index does not know yet -/
theorem Indexed.append_new {acc : PAcc} (h : Indexed acc) (pa : PAttr) (nm : Str) (hn : pa.name = some nm)
    (hnew : lowerStr nm ∉ acc.2.map (·.1)) :
    Indexed (acc.1 ++ [pa], (lowerStr nm, (acc.1.length : Int)) :: acc.2) := by
  refine ⟨?_, ?_, ?_⟩
  · simp only [List.map_cons, List.nodup_cons]; exact ⟨hnew, h.keys⟩
  · intro n i hm
    rcases List.mem_cons.mp hm with h1 | h1
    · obtain ⟨rfl, rfl⟩ := Prod.mk.inj h1
      exact ⟨acc.1.length, rfl, pa, by simp, nm, hn, rfl⟩
    · obtain ⟨k, hk, p, hp, nm', hnm', hl⟩ := h.sound n i h1
      refine ⟨k, hk, p, ?_, nm', hnm', hl⟩
      have hlt : k < acc.1.length := by
        rcases Nat.lt_or_ge k acc.1.length with h | h
        · exact h
        · rw [List.getElem?_eq_none h] at hp; cases hp
      rw [List.getElem?_append_left hlt]; exact hp
  · intro k p nm' hk hnm'
    rcases Nat.lt_or_ge k acc.1.length with hlt | hge
    · rw [List.getElem?_append_left hlt] at hk
      exact List.mem_cons_of_mem _ (h.complete k p nm' hk hnm')
    · rw [List.getElem?_append_right hge] at hk
      have hk0 : k - acc.1.length = 0 := by
        rcases Nat.eq_zero_or_pos (k - acc.1.length) with h0 | h0
        · exact h0
        · rw [List.getElem?_eq_none (by simp only [List.length_singleton]; omega)] at hk; cases hk
      rw [hk0] at hk
      simp only [List.getElem?_cons_zero, Option.some.injEq] at hk
      subst hk
      rw [hn] at hnm'
      cases hnm'
      have : k = acc.1.length := by omega
      rw [this]
      exact List.mem_cons_self

/-- a new entry without a name (an attribute dictionary) -/
theorem Indexed.append_anon {acc : PAcc} (h : Indexed acc) (pa : PAttr) (hn : pa.name = none) :
    Indexed (acc.1 ++ [pa], acc.2) := by
  refine ⟨h.keys, ?_, ?_⟩
  · intro n i hm
    obtain ⟨k, hk, p, hp, nm', hnm', hl⟩ := h.sound n i hm
    refine ⟨k, hk, p, ?_, nm', hnm', hl⟩
    have hlt : k < acc.1.length := by
      rcases Nat.lt_or_ge k acc.1.length with h | h
      · exact h
      · rw [List.getElem?_eq_none h] at hp; cases hp
    rw [List.getElem?_append_left hlt]; exact hp
  · intro k p nm' hk hnm'
    rcases Nat.lt_or_ge k acc.1.length with hlt | hge
    · rw [List.getElem?_append_left hlt] at hk
      exact h.complete k p nm' hk hnm'
    · rw [List.getElem?_append_right hge] at hk
      have hk0 : k - acc.1.length = 0 := by
        rcases Nat.eq_zero_or_pos (k - acc.1.length) with h0 | h0
        · exact h0
        · rw [List.getElem?_eq_none (by simp only [List.length_singleton]; omega)] at hk; cases hk
      rw [hk0] at hk
      simp only [List.getElem?_cons_zero, Option.some.injEq] at hk
      subst hk
      rw [hn] at hnm'
      cases hnm'

/-- an entry replaced in place by one of the same name (case-insensitively) -/
theorem Indexed.set_same {acc : PAcc} (h : Indexed acc) (k : Nat) (old pa : PAttr) (nm nm' : Str)
    (hk : acc.1[k]? = some old) (ho : old.name = some nm) (hn : pa.name = some nm') (hl : lowerStr nm' = lowerStr nm) :
    Indexed (acc.1.set k pa, acc.2) := by
  have hlt : k < acc.1.length := by
    rcases Nat.lt_or_ge k acc.1.length with h | h
    · exact h
    · rw [List.getElem?_eq_none h] at hk; cases hk
  refine ⟨h.keys, ?_, ?_⟩
  · intro n i hm
    obtain ⟨j, hj, p, hp, nm0, hnm0, hl0⟩ := h.sound n i hm
    by_cases hjk : j = k
    · subst hjk
      rw [hk] at hp
      cases hp
      rw [ho] at hnm0
      cases hnm0
      exact ⟨j, hj, pa, by simp [List.getElem?_set, hlt], nm', hn, hl.trans hl0⟩
    · exact ⟨j, hj, p, by rw [List.getElem?_set_ne (Ne.symm hjk)]; exact hp, nm0, hnm0, hl0⟩
  · intro j p nm0 hj hnm0
    by_cases hjk : j = k
    · subst hjk
      simp only [List.getElem?_set, hlt, if_true] at hj
      simp only [Option.some.injEq] at hj
      subst hj
      rw [hn] at hnm0
      cases hnm0
      rw [hl]
      exact h.complete j old nm hk ho
    · rw [List.getElem?_set_ne (Ne.symm hjk)] at hj
      exact h.complete j p nm0 hj hnm0

/-! ## the three phases -/

theorem phase1_indexed : ∀ (L : List Attr) (acc : PAcc), (L.map (fun a => lowerStr a.name.str)).Nodup → Indexed acc →
    (∀ a ∈ L, lowerStr a.name.str ∉ acc.2.map (·.1)) →
    Indexed (L.foldl (fun (acc : List PAttr × List (Str × Int)) a =>
        let pa : PAttr := ⟨some a.name.str, some a.value, a.quote.str, a.space.str, a.eq.str, none⟩
        let l := acc.1 ++ [pa]
        (l, (lowerStr a.name.str, (l.length : Int) - 1) :: acc.2.filter (·.1 != lowerStr a.name.str))) acc) := by
  intro L
  induction L with
  | nil => intro acc _ h _; exact h
  | cons a L ih =>
    intro acc hnd h hnew
    simp only [List.map_cons, List.nodup_cons] at hnd
    simp only [List.foldl_cons]
    have hna : lowerStr a.name.str ∉ acc.2.map (·.1) := hnew a List.mem_cons_self
    have hlen : (((acc.1 ++ [(⟨some a.name.str, some a.value, a.quote.str, a.space.str, a.eq.str, none⟩ : PAttr)]).length : Nat) : Int) - 1
        = (acc.1.length : Int) := by
      simp only [List.length_append, List.length_singleton]; omega
    rw [filter_ne_self _ _ hna, hlen]
    apply ih _ hnd.2 (h.append_new _ a.name.str rfl hna)
    intro b hb
    simp only [List.map_cons, List.mem_cons, not_or]
    refine ⟨?_, hnew b (List.mem_cons_of_mem _ hb)⟩
    intro he
    exact hnd.1 (he ▸ List.mem_map.mpr ⟨b, hb, rfl⟩)

/-- **C07 (at most once)**: in the attribute list `prepare_attributes` hands to the emitters no two entries carry
the same name, compared case-insensitively — a `tal:attributes` entry that targets a name already present replaces
that entry in place, an `i18n:attributes` name already present adds nothing — whenever the start tag itself does not
write a (kept) name twice.  For every attribute list, `tal:attributes` list and `i18n:attributes` list. -/
theorem C07_name_once (q : Quirks) (hq : q.attrIndexOffByOne = false) (attrs : List Attr) (dyn : List (Option Tok × Tok))
    (i18nAttrs : List (Str × Option Str)) (nsOf : Attr → Str) (ns : List ((Str × Str) × Tok)) (dropNs : List Str)
    (res : List PAttr)
    (hstatic : ((attrs.filter (fun a => !(dropNames q attrs nsOf ns dropNs).contains a.name.str)).map
      (fun a => lowerStr a.name.str)).Nodup)
    (hdyn : ∀ d ∈ dyn, ∀ n, d.1 = some n → n.str.isEmpty = false)
    (h : prepareAttributes q attrs dyn i18nAttrs nsOf ns dropNs = some res)
    (k k' : Nat) (p p' : PAttr) (nm nm' : Str)
    (hk : res[k]? = some p) (hk' : res[k']? = some p') (hn : p.name = some nm) (hn' : p'.name = some nm')
    (heq : lowerStr nm = lowerStr nm') : k = k' := by
  unfold prepareAttributes at h
  simp only [Option.map_eq_some_iff] at h
  obtain ⟨ad, had, hres⟩ := h
  generalize dropNames q attrs nsOf ns dropNs = drop at *
  rw [init_fold_skip] at had
  have h1 := phase1_indexed _ ([], []) hstatic indexed_nil (fun _ _ => by simp)
  -- phase 2
  have h2 : Indexed ad := by
    refine option_foldlM_inv Indexed _ dyn _ ad ?_ h1 had
    intro b d b' hd hb hstep
    obtain ⟨name, expr⟩ := d
    simp only at hstep
    cases name with
    | none =>
      simp only [Option.map_none, Option.some.injEq] at hstep
      subst hstep
      exact hb.append_anon _ rfl
    | some n =>
      have hne := hdyn _ hd n rfl
      simp only [hne, Bool.false_eq_true, if_false, Option.map_some] at hstep
      cases hl : prepareAttributes.lookupNorm b.2 (lowerStr n.str) with
      | none =>
        simp only [hl, hq, Bool.false_eq_true, if_false, Option.some.injEq] at hstep
        subst hstep
        have hnew := lookupNorm_none hl
        rw [filter_ne_self _ _ hnew]
        exact hb.append_new _ n.str rfl hnew
      | some i =>
        simp only [hl] at hstep
        obtain ⟨j, hj, old, hold, nm0, hnm0, hl0⟩ := hb.sound _ _ (lookupNorm_some hl)
        have hlt : j < b.1.length := by
          rcases Nat.lt_or_ge j b.1.length with h | h
          · exact h
          · rw [List.getElem?_eq_none h] at hold; cases hold
        rw [hj, pyIndex_nonneg _ _ hlt] at hstep
        simp only [Option.some.injEq] at hstep
        subst hstep
        exact hb.set_same j old _ nm0 n.str hold hnm0 rfl hl0.symm
  -- phase 3
  have h3 : Indexed (i18nAttrs.foldl (fun (acc : List PAttr × List (Str × Int)) (x : Str × Option Str) =>
      let a := lowerStr x.1
      if (prepareAttributes.lookupNorm acc.2 a).isSome then acc else
        let pa : PAttr := ⟨some x.1, some { str := x.1, pos := 0 }, [34], [32], [61], none⟩
        let l := acc.1 ++ [pa]
        (l, (a, (l.length : Int) - 1) :: acc.2)) ad) := by
    refine foldl_inv Indexed _ i18nAttrs ad ?_ h2
    intro b a _ hb
    obtain ⟨name, x⟩ := a
    simp only
    cases hl : prepareAttributes.lookupNorm b.2 (lowerStr name) with
    | some i => simp only [Option.isSome_some, if_true]; exact hb
    | none =>
      simp only [Option.isSome_none, Bool.false_eq_true, if_false]
      have hlen : (((b.1 ++ [(⟨some name, some { str := name, pos := 0 }, [34], [32], [61], none⟩ : PAttr)]).length : Nat) : Int) - 1
          = (b.1.length : Int) := by
        simp only [List.length_append, List.length_singleton]; omega
      rw [hlen]
      exact hb.append_new _ name rfl (lookupNorm_none hl)
  rw [← hres] at hk hk'
  exact h3.once k k' p p' nm nm' hk hk' hn hn' heq

private def tk (s : String) (pos : Nat) : Tok := { str := lit s, pos := pos }
private def exA : Attr := { space := tk " " 2, name := tk "class" 3, eq := tk "=" 8, quote := tk "\"" 9, value := tk "a" 10 }

/-- the hypotheses are met, and the replacement happens in place: `<p class="a" tal:attributes="CLASS x" i18n:attributes="Class">`
has one entry for the three spellings -/
example : prepareAttributes Quirks.current [exA] [(some (tk "CLASS" 30), tk "x" 36)] [(lit "Class", none)] (fun _ => lit "")
      [] dropNs = some [⟨some (lit "CLASS"), some (tk "a" 10), lit "\"", lit " ", lit "=", some (tk "x" 36)⟩] ∧
    Quirks.current.attrIndexOffByOne = false := by decide +kernel

end ChamVerif

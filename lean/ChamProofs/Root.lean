import ChamVerif.Eval
/-! # `econtext._root` is constant within a function

`RootKept m`: when `m` completes normally the root dictionary of the scope (and whether the scope is a copy) is what it
was.  Only macro calls and slot fillers create scopes with another root, and they give the caller's scope back. -/
namespace ChamVerif.Root
open ChamVerif

def rootOf (s : RState) : List (Str × Val) × Bool := (s.env.root, s.env.hasRoot)

structure RootKept {α} (m : RM α) : Prop where
  at_ : ∀ s a s', m s = .ok a s' → rootOf s' = rootOf s
  err_ : ∀ s e s', m s = .raised e s' → rootOf s' = rootOf s

def RootKeptAt {α} (m : RM α) (s : RState) : Prop :=
  (∀ a s', m s = .ok a s' → rootOf s' = rootOf s) ∧ (∀ e s', m s = .raised e s' → rootOf s' = rootOf s)

theorem rk_pure {α} (a : α) : RootKept (pure a : RM α) := ⟨fun s a' s' h => (by cases h; rfl), fun s e s' h => (by cases h)⟩
theorem rk_raise {α} (e : Exc) : RootKept (mRaise e : RM α) := ⟨fun s a s' h => (by cases h), fun s e' s' h => (by cases h; rfl)⟩
theorem rk_unsupported {α} (w : String) : RootKept (mUnsupported w : RM α) :=
  ⟨fun s a s' h => (by cases h), fun s e s' h => (by cases h)⟩
theorem rk_get : RootKept mGet := ⟨fun s a s' h => (by cases h; rfl), fun s e s' h => (by cases h)⟩

theorem rk_liftR {α} (r : R α) : RootKept (mLiftR r) := by
  constructor
  · intro s a s' h
    unfold mLiftR at h
    cases r <;> first | (cases h; rfl) | cases h
  · intro s e s' h
    unfold mLiftR at h
    cases r <;> first | (cases h; rfl) | cases h

theorem rk_liftX {α} (m : Env → XM α) : RootKept (liftX m) := by
  constructor
  · intro s a s' h
    unfold liftX at h
    cases hm : m s.env s.x with
    | ok b x' => simp only [hm] at h; cases h; rfl
    | raised e x' => simp [hm] at h
    | unsupported w => simp [hm] at h
  · intro s e s' h
    unfold liftX at h
    cases hm : m s.env s.x with
    | ok b x' => simp [hm] at h
    | raised e x' => simp only [hm] at h; cases h; rfl
    | unsupported w => simp [hm] at h

theorem rk_modify (f : RState → RState) (hf : ∀ s, rootOf (f s) = rootOf s) : RootKept (mModify f) :=
  ⟨fun s a s' h => (by cases h; exact hf s), fun s e s' h => (by cases h)⟩

theorem rk_emit (t : Str) : RootKept (emit t) :=
  rk_modify _ (fun s => by cases h : s.streams <;> simp [rootOf, h])
theorem rk_pushStream : RootKept pushStream := rk_modify _ (fun _ => rfl)
theorem rk_popStream : RootKept popStream := by
  constructor
  · intro s a s' h
    unfold popStream at h
    cases hs : s.streams <;> simp [hs] at h <;> (obtain ⟨_, rfl⟩ := h; rfl)
  · intro s e s' h
    unfold popStream at h
    cases hs : s.streams <;> simp [hs] at h
theorem rk_setVar (k : Str) (v : Val) : RootKept (setVar k v) := rk_modify _ (fun _ => rfl)
theorem rk_delVar (k : Str) : RootKept (delVar k) := rk_modify _ (fun _ => rfl)
theorem rk_setGlobal (k : Str) (v : Val) : RootKept (setGlobal k v) := rk_modify _ (fun _ => rfl)
theorem rk_modEnv (f : Env → Env) (hf : ∀ e, (f e).root = e.root ∧ (f e).hasRoot = e.hasRoot) : RootKept (modEnv f) :=
  rk_modify _ (fun s => by simp [rootOf, (hf s.env).1, (hf s.env).2])
theorem rk_modFrame (f : Frame → Frame) : RootKept (modFrame f) := by
  refine rk_modEnv _ (fun e => ?_)
  cases h : e.frames <;> simp [h]
theorem rk_setTName (n v : Str) : RootKept (setTName n v) :=
  rk_modify _ (fun s => by cases h : s.tmaps <;> simp [rootOf, h])
theorem rk_enVal (cfg : ECfg) (al : List (Str × Val)) (e : EN) : RootKept (enVal cfg al e) := rk_liftX _
theorem rk_vTruthy (cfg : ECfg) (v : Val) : RootKept (vTruthy cfg v) := rk_liftR _

theorem rkAt_bind {α β} (m : RM α) (f : α → RM β) (s : RState) (hm : RootKeptAt m s)
    (hf : ∀ a s1, m s = .ok a s1 → RootKeptAt (f a) s1) : RootKeptAt (m >>= f) s := by
  constructor
  · intro b s' h
    simp only [bind] at h
    cases hr : m s with
    | ok a s1 =>
      simp only [hr] at h
      rw [(hf a s1 hr).1 b s' h, hm.1 a s1 hr]
    | raised e s1 => simp [hr] at h
    | unsupported w => simp [hr] at h
  · intro e s' h
    simp only [bind] at h
    cases hr : m s with
    | ok a s1 =>
      simp only [hr] at h
      rw [(hf a s1 hr).2 e s' h, hm.1 a s1 hr]
    | raised e1 s1 =>
      simp only [hr] at h
      cases h
      exact hm.2 _ _ hr
    | unsupported w => simp [hr] at h

theorem RootKept.at' {α} {m : RM α} (h : RootKept m) (s : RState) : RootKeptAt m s := ⟨h.at_ s, h.err_ s⟩

theorem rk_of_at {α} {m : RM α} (h : ∀ s, RootKeptAt m s) : RootKept m := ⟨fun s => (h s).1, fun s => (h s).2⟩

theorem rk_bind {α β} (m : RM α) (f : α → RM β) (hm : RootKept m) (hf : ∀ a, RootKept (f a)) : RootKept (m >>= f) :=
  rk_of_at (fun s => rkAt_bind m f s (hm.at' s) (fun a s1 _ => (hf a).at' s1))

theorem rk_get_bind {β} (f : RState → RM β) (hf : ∀ s0, RootKeptAt (f s0) s0) : RootKept (mGet >>= f) :=
  rk_of_at (fun s => rkAt_bind mGet f s (rk_get.at' s) (fun a s1 h => by cases h; exact hf s))

theorem rk_forM {α} (l : List α) (f : α → RM Unit) (hf : ∀ a, RootKept (f a)) : RootKept (l.forM f) := by
  induction l with
  | nil => exact rk_pure ()
  | cons a rest ih =>
    show RootKept (f a >>= fun _ => rest.forM f)
    exact rk_bind _ _ (hf a) (fun _ => ih)

theorem rk_restore (bk : List (Str × Option Val)) : RootKept (restore bk) := by
  unfold restore
  refine rk_forM _ _ (fun kv => ?_)
  obtain ⟨k, v⟩ := kv
  cases v
  · exact rk_delVar k
  · exact rk_setVar k _

theorem rk_attrFiltered_go (fr : Frame) (name : Str) : ∀ (l : List Nat), RootKept (attrFiltered.go name fr l) := by
  intro l
  induction l with
  | nil => unfold attrFiltered.go; exact rk_pure _
  | cons id rest ih =>
    unfold attrFiltered.go
    split
    · split
      · exact rk_pure _
      · exact ih
    · split
      · exact rk_pure _
      · exact ih
    · split
      · exact rk_pure _
      · exact ih
    · exact rk_raise _
    · exact rk_raise _
    · exact rk_raise _
    · exact rk_unsupported _
    · exact rk_unsupported _

theorem rk_attrFiltered (name : Str) (filters : List Nat) : RootKept (attrFiltered name filters) := by
  unfold attrFiltered
  exact rk_bind _ _ rk_get (fun s => rk_attrFiltered_go _ _ _)

/-- a callee whose scope is discarded on return -/
theorem rk_wrap (m : RM Unit) (enter : RState → RState) (leaveOk leaveErr : RState → RState → RState)
    (hl : ∀ s s', rootOf (leaveOk s s') = rootOf s) (hl2 : ∀ s s', rootOf (leaveErr s s') = rootOf s) :
    RootKept (fun s => match m (enter s) with
      | .ok () s' => .ok () (leaveOk s s')
      | .raised ex s' => .raised ex (leaveErr s s')
      | .unsupported w => .unsupported w) := by
  constructor
  · intro s a s' h
    cases hr : m (enter s) with
    | ok u s1 =>
      simp only [hr] at h
      cases h
      exact hl s s1
    | raised e s1 => simp [hr] at h
    | unsupported w => simp [hr] at h
  · intro s e s' h
    cases hr : m (enter s) with
    | ok u s1 => simp [hr] at h
    | raised e1 s1 =>
      simp only [hr] at h
      cases h
      exact hl2 s s1
    | unsupported w => simp [hr] at h

end ChamVerif.Root

import ChamProofs.Root
namespace ChamVerif.Root
open ChamVerif

macro "rk_atom" : tactic => `(tactic| first
  | exact rk_pure _
  | exact rk_raise _
  | exact rk_unsupported _
  | exact rk_emit _
  | exact rk_enVal _ _ _
  | exact rk_vTruthy _ _
  | exact rk_liftX _
  | exact rk_liftR _
  | exact rk_attrFiltered _ _
  | exact rk_setVar _ _
  | exact rk_setGlobal _ _
  | exact rk_setTName _ _
  | exact rk_restore _
  | exact rk_get
  | exact rk_pushStream
  | exact rk_popStream
  | exact rk_modFrame _
  | exact rk_modEnv _ (by intro e; exact ⟨rfl, rfl⟩)
  | exact rk_modify _ (by intro s; rfl)
  | assumption)

macro "rk" : tactic => `(tactic| repeat' (first
  | rk_atom
  | (apply rk_bind)
  | (apply rk_forM)
  | (intro _)
  | split))

theorem onErrorHandle_root (cfg : ECfg) (key depth savedLen : Nat) (ex : Exc) (s' s2 : RState)
    (h : onErrorHandle cfg key depth savedLen ex s' = some s2) : rootOf s2 = rootOf s' := by
  unfold onErrorHandle at h
  simp only [Option.some.injEq] at h
  subst h
  rfl

theorem rk_all (cfg : ECfg) : ∀ f,
    (∀ al node, RootKept (eval cfg al f node)) ∧
    (∀ al ns, RootKept (evalList cfg al f ns)) ∧
    (∀ al as node bk, RootKept (evalDefine cfg al f as node bk)) ∧
    (∀ al key names loc ws node items rem, RootKept (evalRepeat cfg al f key names loc ws node items rem)) := by
  intro f
  induction f with
  | zero =>
    refine ⟨?_, ?_, ?_, ?_⟩ <;> intros <;> simp only [eval, evalList, evalDefine, evalRepeat] <;> exact rk_unsupported _
  | succ f ih =>
    obtain ⟨ihE, ihL, ihD, ihR⟩ := ih
    refine ⟨?_, ?_, ?_, ?_⟩
    · intro al node
      have hE : ∀ n, RootKept (eval cfg al f n) := ihE al
      cases node with
      | text s => simp only [eval]; exact rk_emit _
      | seq ns => simp only [eval]; exact ihL al ns
      | element st en ct =>
        simp only [eval]
        rk
        all_goals first | exact hE _ | skip
      | start name pfx suffix attrs =>
        simp only [eval]
        rk
        all_goals first | exact hE _ | skip
      | end_ name space pfx suffix => simp only [eval]; exact rk_emit _
      | «attribute» name e quote eq space dflt filters =>
        simp only [eval]
        rk
      | dictAttrs id e exclude =>
        simp only [eval]
        rk
      | content e esc translate =>
        simp only [eval]
        rk
      | interpolation e =>
        simp only [eval]
        rk
      | condition c node orelse =>
        simp only [eval]
        rk
        all_goals first | exact hE _ | skip
      | cache es node =>
        simp only [eval]
        rk
        all_goals first | exact hE _ | skip
      | cancel ids node =>
        simp only [eval]
        rk
        all_goals first | exact hE _ | skip
      | define assigns node => simp only [eval]; exact ihD al assigns node []
      | repeat_ id names e local_ ws node =>
        simp only [eval]
        rk
        all_goals first | exact ihR _ _ _ _ _ _ _ _ | skip
      | onError id fallback node =>
        refine rk_of_at (fun s => ?_)
        have key : ∀ r, eval cfg al (f + 1) (.onError id fallback node) s = r →
            (∀ a s', r = .ok a s' → rootOf s' = rootOf s) ∧ (∀ e s', r = .raised e s' → rootOf s' = rootOf s) := by
          intro r hr
          simp only [eval] at hr
          generalize hs1 : ({ s with env := match s.env.frames with
            | fr :: rest => { s.env with frames := { fr with saved := ((if cfg.tc.q.sharedFallbackVar = true then 0 else id), (s.streams.headD []).length) :: fr.saved.filter (·.1 != (if cfg.tc.q.sharedFallbackVar = true then 0 else id)) } :: rest }
            | [] => s.env } : RState) = s1 at hr
          have hent : rootOf s1 = rootOf s := by
            rw [← hs1]
            cases hf : s.env.frames <;> simp [rootOf]
          split at hr
          · rename_i sa heq
            subst hr
            constructor
            · intro a s' h; cases h; rw [(hE node).at_ _ () _ heq, hent]
            · intro e s' h; cases h
          · subst hr
            constructor <;> intro _ _ h <;> cases h
          · rename_i ex sb heq
            have hsb : rootOf sb = rootOf s := by rw [(hE node).err_ _ _ _ heq, hent]
            split at hr
            · subst hr
              constructor
              · intro a s' h; cases h
              · intro e s' h; cases h; exact hsb
            · split at hr
              · subst hr
                constructor <;> intro _ _ h <;> cases h
              · rename_i s2 ho
                have h2 : rootOf s2 = rootOf s := by rw [onErrorHandle_root cfg _ _ _ ex sb s2 ho, hsb]
                subst hr
                constructor
                · intro a s' h; rw [(hE fallback).at_ _ a s' h]; exact h2
                · intro e s' h; rw [(hE fallback).err_ _ e s' h]; exact h2
        exact ⟨fun a s' h => (key _ rfl).1 a s' h, fun e s' h => (key _ rfl).2 e s' h⟩
      | translate id msgid node =>
        simp only [eval]
        rk
        all_goals first | exact hE _ | skip
      | name nm node =>
        simp only [eval]
        rk
        all_goals first | exact hE _ | skip
      | domain d node =>
        simp only [eval]
        rk
        all_goals first | exact hE _ | skip
      | txContext c node =>
        simp only [eval]
        rk
        all_goals first | exact hE _ | skip
      | target e node =>
        simp only [eval]
        rk
        all_goals first | exact hE _ | skip
      | defineSlot nm node =>
        refine rk_of_at (fun s => ?_)
        cases hl : lookupAssoc s.env.topFrame.slotFns (mangleName nm.str) with
        | none =>
          have he : eval cfg al (f + 1) (.defineSlot nm node) s = eval cfg al f node s := by simp [eval, hl]
          unfold RootKeptAt
          rw [he]
          exact (hE node).at' s
        | some o =>
          cases o with
          | none =>
            have he : eval cfg al (f + 1) (.defineSlot nm node) s = eval cfg al f node s := by simp [eval, hl]
            unfold RootKeptAt
            rw [he]
            exact (hE node).at' s
          | some cid =>
            cases hc : s.closures[cid]? with
            | none =>
              constructor <;> intro _ _ h <;> simp [eval, hl, hc] at h
            | some cl =>
              constructor
              · intro a s' h
                cases hr : eval cfg cl.al f cl.node (fillerEnter cl s) with
                | ok u s1 => simp only [eval, hl, hc, hr] at h; cases h; rfl
                | raised e1 s1 => simp [eval, hl, hc, hr] at h
                | unsupported w => simp [eval, hl, hc, hr] at h
              · intro e s' h
                cases hr : eval cfg cl.al f cl.node (fillerEnter cl s) with
                | ok u s1 => simp [eval, hl, hc, hr] at h
                | raised e1 s1 => simp only [eval, hl, hc, hr] at h; cases h; rfl
                | unsupported w => simp [eval, hl, hc, hr] at h
      | useExternal e slots extend =>
        simp only [eval]
        refine rk_bind _ _ (rk_forM _ _ (fun ns => ?_)) (fun _ => ?_)
        · obtain ⟨nm, sn⟩ := ns
          refine rk_get_bind _ (fun s0 => ?_)
          simp only
          split
          · constructor
            · intro a s' h; cases h; rfl
            · intro e s' h; cases h
          · constructor <;> intro _ _ h <;> cases h
          · refine rkAt_bind _ _ s0 ?_ (fun _ s1 _ => (rk_setVar _ _).at' s1)
            constructor
            · intro a s' h; cases h; rfl
            · intro e s' h; cases h
        · refine rk_bind _ _ (rk_enVal _ _ _) (fun v => ?_)
          split
          · rename_i tid name _
            split
            · exact rk_unsupported _
            · rename_i body _
              exact rk_wrap (eval cfg [] f body) (macroEnter tid body) macroLeave macroRaise (fun _ _ => rfl) (fun _ _ => rfl)
          · exact rk_unsupported _
      | useInternal name =>
        simp only [eval]
        split
        · exact rk_unsupported _
        · rename_i nm
          refine rk_of_at (fun s => ?_)
          cases hb : lookupAssoc (cfg.macrosOf s.env.topFrame.tid) nm with
          | none => constructor <;> intro _ _ h <;> simp [hb] at h
          | some body =>
            have hw := (rk_wrap (eval cfg [] f body) (fun s => macroEnter s.env.topFrame.tid body { s with x := { s.x with token := none } })
              (fun s s' => macroLeave { s with x := { s.x with token := none } } s')
              (fun s s' => macroRaise { s with x := { s.x with token := none } } s') (fun _ _ => rfl) (fun _ _ => rfl)).at' s
            constructor
            · intro a s' h; simp only [hb] at h; exact hw.1 a s' h
            · intro e s' h; simp only [hb] at h; exact hw.2 e s' h
      | codeBlock src => simp only [eval]; exact rk_unsupported _
    · intro al ns
      cases ns with
      | nil => simp only [evalList]; exact rk_pure _
      | cons n rest =>
        simp only [evalList]
        exact rk_bind _ _ (ihE al n) (fun _ => ihL al rest)
    · intro al as node bk
      cases as with
      | nil =>
        simp only [evalDefine]
        exact rk_bind _ _ (ihE al node) (fun _ => rk_restore _)
      | cons a rest =>
        cases a with
        | alias name e =>
          simp only [evalDefine]
          exact rk_bind _ _ (rk_enVal _ _ _) (fun v => ihD _ rest node bk)
        | assign names e local_ =>
          simp only [evalDefine]
          rk
          all_goals first | exact ihD _ _ _ _ | skip
    · intro al key names loc ws node items rem
      cases items with
      | nil => simp only [evalRepeat]; exact rk_pure _
      | cons item rest =>
        simp only [evalRepeat]
        rk
        all_goals first | exact ihE _ _ | exact ihR _ _ _ _ _ _ _ _ | skip

end ChamVerif.Root

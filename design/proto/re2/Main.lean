import Gen
open Proto2

def parseCps (h : String) : Array Nat :=
  if h.isEmpty then #[] else ((h.splitOn ",").map (fun x => x.toNat!)).toArray

partial def loop (hin : IO.FS.Stream) : IO Unit := do
  let line ← hin.getLine
  if line.isEmpty then return ()
  let parts := (line.dropEndWhile (· == '\n') |>.toString).splitOn "\t"
  match parts with
  | [name, fn, h] =>
    match Gen.all.find? (·.1 == name) with
    | none => IO.println "bad-pattern"
    | some (_, r) =>
      let s := parseCps h
      let out := match fn with
        | "match" => match matchAt Gen.uni s r 0 with | some st => showMatch r 0 st | none => "none"
        | "search" => match search Gen.uni s r with | some (a, st) => showMatch r a st | none => "none"
        | "finditer" => "[" ++ String.intercalate "|" ((finditer Gen.uni s r).map (fun (a, st) => showMatch r a st)) ++ "]"
        | _ => "bad-fn"
      IO.println ("R\t" ++ out)
  | _ => IO.println "bad-op"
  loop hin

def main : IO Unit := do loop (← IO.getStdin)

import random, subprocess, sys, itertools, os
sys.path.insert(0, '/repo/src'); sys.path.insert(0, '.')
import extract_re as X
rnd = random.Random(int(os.environ.get('SEED', '1')))
ALPH = {
 'default': list('<>/!-?[]ab =\'"&;\n${}CDATA:x1#.\\|\t'),
}
def spans(p, m):
    if m is None: return 'none'
    out = '%d,%d' % m.span()
    for g in range(1, p.groups + 1):
        a, b = m.span(g)
        out += ';' + ('-' if a < 0 else '%d,%d' % (a, b))
    return out
FNS = {'XML_SPE': ['finditer', 'match'], 'SINGLE_ATTR': ['finditer'], 'PIPE_SPLIT': ['finditer'], 'ENTITY_RE': ['search', 'finditer'], 'ENTITY2_RE': ['finditer'],
       'BRACES_REQ': ['search'], 'BRACES_OPT': ['search'], 'RE_META': ['search'], 'RE_ENCODING': ['search'], 'DOUBLE_HYPHEN': ['search'], 'CONTINUATION': ['finditer'], 'RE_TRIM': ['finditer'], 'RE_MANGLE': ['finditer'], 'I18N_INTERP': ['finditer']}
cases = []
N = int(os.environ.get('N', '400'))
special = {'RE_META': ['<meta http-equiv="Content-Type" content="text/html; charset=utf-8">', "<META http-equiv='content-type' content=a;charset=b/>  ", ' <meta  http-equiv=Content-Type content=x; charset=y >'],
           'RE_ENCODING': ['<?xml version="1.0" encoding="utf-8"?>', "encoding = 'a-b'", 'ENCODING="x"'],
           'DEFINE_RE': ['a b', 'global a b', ' local (a,b) c d', '(a, b,c) x', 'a-b 1', '1a b', 'a  ', '\xa0a b'],
           'TAG_PREFIX_NAME': ['<a>', '</a >', '<a:b c="1"/>', '<a\n/>', '<a/ >', '<é b>'],
           'SINGLE_ATTR': [' a="1" b=\'2\' c=3 d e = "x"', ' b n="1"', ' disabled rt="1"', '\n a = "x\ny"\tb', ' 1a="x"', ' a="1"b="2"'],
           'BRACES_REQ': ['${a}', 'x ${a} y ${b} z', '$${a}', '${a', '${ {1:2} }', 'a $b ${}'], 'BRACES_OPT': ['$a ${b}', '$1 $a1_ $', 'x$$y'],
           'I18N_INTERP': ['${a} $b $$c $${d} ${e-f}', '$a$b'], 'MATCH_PREFIX': ['python: x', ' string:a', 'a b:', 'not:exists:x', 'X:1', 'a-b_c1:'],
           'XML_SPE': ['<a b="1" c>x</a><!-- c --><![CDATA[x]]><?pi x?><!DOCTYPE html [<!ENTITY a "b">]>', '<a b=c d=\'e\' f = "g"/>', '<a <b>', '<!--', '<![CDATA[', '<?', '</', '<!DOCTYPE', '<a b="', '<é:x é="1">']}
for name, p in X.PATS.items():
    fns = FNS.get(name, ['match', 'search'])
    strs = list(special.get(name, []))
    pat_chars = sorted(set(c for c in (p.pattern.decode() if isinstance(p.pattern, bytes) else p.pattern) if not c.isalnum())) 
    alph = sorted(set(ALPH['default'] + ['é', '\xa0', 'Z', 'e', 'n', 't', 'r', 'l', 'g', '0']))
    for _ in range(N):
        k = rnd.randint(0, 14)
        strs.append(''.join(rnd.choice(alph) for _ in range(k)))
    # mutate specials
    for sp_ in special.get(name, []):
        for _ in range(20):
            l = list(sp_)
            for _ in range(rnd.randint(1, 3)):
                if l and rnd.random() < 0.5: del l[rnd.randrange(len(l))]
                else: l.insert(rnd.randint(0, len(l)), rnd.choice(alph))
            strs.append(''.join(l))
    for s in strs:
        if isinstance(p.pattern, bytes):
            if any(ord(c) > 127 for c in s): continue
            subj = s.encode()
        else: subj = s
        for fn in fns:
            if fn == 'match': exp = spans(p, p.match(subj))
            elif fn == 'search': exp = spans(p, p.search(subj))
            else: exp = '[' + '|'.join(spans(p, m) for m in p.finditer(subj)) + ']'
            cases.append((name, fn, s, exp))
inp = ''.join('%s\t%s\t%s\n' % (n, f, ','.join(str(ord(c)) for c in s)) for n, f, s, e in cases)
r = subprocess.run([os.environ.get('DRIVER')] if os.environ.get('DRIVER') else ['lean', '--run', 'Main.lean'], input=inp, capture_output=True, text=True, env=dict(os.environ, LEAN_PATH='.'))
outs = [l[2:] for l in r.stdout.splitlines() if l.startswith('R\t')]
print('cases', len(cases), 'outputs', len(outs), r.stderr[:500])
bad = 0
from collections import Counter
c = Counter()
for (n, f, s, e), o in zip(cases, outs):
    if e != o:
        bad += 1; c[n] += 1
        if c[n] <= 3: print('DIFF', n, f, repr(s), 'py', e, 'lean', o)
print('bad', bad, dict(c))

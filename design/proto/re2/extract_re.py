"""Prototype: print Lean `Re` terms for chameleon's regexes (from re._parser trees)."""
import re, re._parser as sp, re._constants as sc, sys, unicodedata
sys.path.insert(0, '/repo/src')
from chameleon import tokenize, parser, tal, utils, compiler, tales, i18n
from chameleon.zpt import program

PATS = {
 'XML_SPE': tokenize.re_xml_spe, 'TAG_PREFIX_NAME': parser.match_tag_prefix_and_name,
 'SINGLE_ATTR': parser.match_single_attribute, 'DOUBLE_HYPHEN': parser.match_double_hyphen,
 'COMMENT': parser.match_comment, 'CDATA': parser.match_cdata, 'DECL': parser.match_declaration,
 'PI': parser.match_processing_instruction, 'XML_DECL': parser.match_xml_declaration,
 'DEFINE_RE': tal.DEFINE_RE, 'SUBST_RE': tal.SUBST_RE, 'ATTR_RE': tal.ATTR_RE, 'ENTITY_RE': tal.ENTITY_RE,
 'ENTITY2_RE': utils.entity_re, 'RE_META': utils.RE_META, 'RE_ENCODING': utils.RE_ENCODING,
 'BRACES_REQ': compiler.Interpolator.braces_required_regex, 'BRACES_OPT': compiler.Interpolator.braces_optional_regex,
 'RE_MANGLE': compiler.RE_MANGLE, 'RE_NAME': compiler.RE_NAME, 'PIPE_SPLIT': tales.split_parts,
 'MATCH_PREFIX': tales.match_prefix.__self__, 'CONTINUATION': tales.re_continuation,
 'I18N_INTERP': i18n._interp_regex, 'RE_TRIM': program.re_trim, 'RE_DOTTED': tales.ImportExpr.re_dotted,
}

def cat(av, ascii_only):
    n = str(av)
    m = {'CATEGORY_SPACE': ('space', False), 'CATEGORY_NOT_SPACE': ('space', True),
         'CATEGORY_DIGIT': ('digit', False), 'CATEGORY_NOT_DIGIT': ('digit', True),
         'CATEGORY_WORD': ('word', False), 'CATEGORY_NOT_WORD': ('word', True)}[n]
    return '(.cat %s .%s %s)' % ('true' if m[1] else 'false', m[0], 'true' if ascii_only else 'false')

def fold(c):
    # characters equal to c under IGNORECASE (simple: lower/upper of ASCII letters)
    ch = chr(c); s = {ch, ch.lower(), ch.upper()}
    return sorted(ord(x) for x in s if len(x) == 1)

def conv(tree, flags, ascii_only):
    items = [conv1(op, av, flags, ascii_only) for op, av in tree]
    if not items: return '.eps'
    out = items[-1]
    for it in reversed(items[:-1]): out = '(.seq %s %s)' % (it, out)
    return out

def conv1(op, av, flags, ascii_only):
    ic = bool(flags & re.I); dotall = bool(flags & re.S); ml = bool(flags & re.M)
    o = str(op)
    if o == 'LITERAL':
        if ic and len(fold(av)) > 1: return '(.cls false [%s])' % ', '.join('.ch %d' % c for c in fold(av))
        return '(.chr %d)' % av
    if o == 'NOT_LITERAL':
        if ic and len(fold(av)) > 1: return '(.cls true [%s])' % ', '.join('.ch %d' % c for c in fold(av))
        return '(.cls true [.ch %d])' % av
    if o == 'ANY': return '(.any %s)' % ('true' if dotall else 'false')
    if o == 'IN':
        neg = False; its = []
        for o2, a2 in av:
            o2 = str(o2)
            if o2 == 'NEGATE': neg = True
            elif o2 == 'LITERAL':
                for c in (fold(a2) if ic else [a2]): its.append('.ch %d' % c)
            elif o2 == 'RANGE':
                lo, hi = a2
                its.append('.range %d %d' % (lo, hi))
                if ic:
                    for c in range(lo, hi + 1):
                        for d in fold(c):
                            if not lo <= d <= hi: its.append('.ch %d' % d)
            elif o2 == 'CATEGORY': its.append(cat(a2, ascii_only))
            else: raise NotImplementedError(o2)
        return '(.cls %s [%s])' % ('true' if neg else 'false', ', '.join(its))
    if o == 'BRANCH':
        alts = [conv(b, flags, ascii_only) for b in av[1]]
        out = alts[-1]
        for a in reversed(alts[:-1]): out = '(.alt %s %s)' % (a, out)
        return out
    if o in ('MAX_REPEAT', 'MIN_REPEAT'):
        lo, hi, sub = av
        mx = 'none' if hi == sc.MAXREPEAT else '(some %d)' % hi
        return '(.rep %s %d %s %s)' % ('true' if o == 'MAX_REPEAT' else 'false', lo, mx, conv(sub, flags, ascii_only))
    if o == 'SUBPATTERN':
        g, addf, delf, sub = av
        assert not addf and not delf
        inner = conv(sub, flags, ascii_only)
        return inner if g is None else '(.grp %d %s)' % (g, inner)
    if o == 'GROUPREF': return '(.bref %d)' % av
    if o in ('ASSERT', 'ASSERT_NOT'):
        d, sub = av
        return '(.look %s %s %s)' % ('true' if d < 0 else 'false', 'true' if o == 'ASSERT_NOT' else 'false', conv(sub, flags, ascii_only))
    if o == 'AT':
        a = str(av)
        if a == 'AT_BEGINNING': return '(.at .bol)' if ml else '(.at .bos)'
        if a == 'AT_END': return '(.at .eolm)' if ml else '(.at .eol)'
        if a == 'AT_END_STRING': return '(.at .eos)'
        if a == 'AT_BEGINNING_STRING': return '(.at .bos)'
        raise NotImplementedError(a)
    raise NotImplementedError(o)

def ranges(pred):
    out = []; start = None
    for c in range(0x110000):
        if 0xD800 <= c <= 0xDFFF: ok = False
        else: ok = pred(chr(c))
        if ok and start is None: start = c
        if not ok and start is not None: out.append((start, c - 1)); start = None
    if start is not None: out.append((start, 0x10FFFF))
    return out

def main():
    print('import Re2\nnamespace Gen\nopen Proto2\n')
    for name, tbl in [('spaceRanges', ranges(str.isspace)), ('digitRanges', ranges(lambda ch: unicodedata.category(ch) == 'Nd')), ('wordRanges', ranges(lambda ch: ch.isalnum() or ch == '_'))]:
        print('def %s : Array (Nat × Nat) := #[%s]' % (name, ', '.join('(%d,%d)' % r for r in tbl)))
    print('def uni : Uni := { space := spaceRanges, digit := digitRanges, word := wordRanges }\n')
    for name, p in PATS.items():
        pat = p.pattern
        ascii_only = isinstance(pat, bytes) or bool(p.flags & re.A)
        tree = sp.parse(pat, p.flags)
        print('def %s : Re := %s' % (name, conv(tree, p.flags, ascii_only)))
    print('\ndef all : List (String × Re) := [%s]' % ', '.join('("%s", %s)' % (n, n) for n in PATS))
    print('end Gen')
if __name__ == '__main__': main()

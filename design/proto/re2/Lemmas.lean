import Re2
open Proto2

namespace Proto2

/-- greedy run of a single-character test, as plain structural recursion on remaining length -/
def greedyRun {α} (s : Array Nat) (p : Nat → Bool) : Nat → St → K α → Option α
  | 0, st, k => k st
  | n+1, st, k =>
    if h : st.pos < s.size then
      if p s[st.pos] then greedyRun s p n { st with pos := st.pos + 1 } k <|> k st else k st
    else k st

def single {α} (s : Array Nat) (p : Nat → Bool) : M α := fun st k =>
  if h : st.pos < s.size then (if p s[st.pos] then k { st with pos := st.pos + 1 } else none) else none

/-- `r*` (greedy, min 0, unbounded) over a single-char matcher is the greedy run. -/
theorem repM_greedy_single {α} (s : Array Nat) (p : Nat → Bool) :
    ∀ (fuel cnt : Nat) (st : St) (k : K α),
      repM true (single s p) 0 none fuel cnt st k = greedyRun s p fuel st k := by
  intro fuel
  induction fuel with
  | zero => intro cnt st k; simp [repM, greedyRun]
  | succ n ih =>
    intro cnt st k
    simp only [repM, greedyRun, single]
    by_cases h : st.pos < s.size
    · simp only [h, dite_true]
      by_cases hp : p s[st.pos] = true
      · simp [hp, ih]
      · simp [hp]
    · simp [h]

/-- Characterisation: with enough fuel the greedy run returns the continuation at the
    largest `j ≤ runLen` for which it succeeds (longest first). -/
def runLen (s : Array Nat) (p : Nat → Bool) : Nat → Nat → Nat
  | 0, _ => 0
  | n+1, i => if h : i < s.size then (if p s[i] then runLen s p n (i+1) + 1 else 0) else 0

def firstFrom {α} (k : Nat → Option α) : Nat → Option α   -- tries j, j-1, …, 0
  | 0 => k 0
  | j+1 => k (j+1) <|> firstFrom k j

theorem firstFrom_shift {α} (f : Nat → Option α) : ∀ m,
    (firstFrom (fun j => f (j+1)) m <|> f 0) = firstFrom f (m+1) := by
  intro m
  induction m with
  | zero => simp [firstFrom]
  | succ m ih =>
    show ((f (m+1+1) <|> firstFrom (fun j => f (j+1)) m) <|> f 0) = (f (m+1+1) <|> firstFrom f (m+1))
    rw [← ih]
    cases f (m+1+1) <;> simp

theorem greedyRun_eq_first {α} (s : Array Nat) (p : Nat → Bool) :
    ∀ (n : Nat) (st : St) (k : K α),
      greedyRun s p n st k = firstFrom (fun j => k { st with pos := st.pos + j }) (runLen s p n st.pos) := by
  intro n
  induction n with
  | zero => intro st k; simp [greedyRun, runLen, firstFrom]
  | succ n ih =>
    intro st k
    simp only [greedyRun, runLen]
    by_cases h : st.pos < s.size
    · simp only [h, dite_true]
      by_cases hp : p s[st.pos] = true
      · simp only [hp, ite_true]
        rw [ih]
        have := firstFrom_shift (fun j => k { pos := st.pos + j, caps := st.caps }) (runLen s p n (st.pos + 1))
        simp only [Nat.add_zero] at this
        rw [← this]
        congr 2
        funext j
        congr 1
        simp [Nat.add_assoc, Nat.add_comm 1 j]
      · simp [hp, firstFrom]
    · simp [h, firstFrom]
end Proto2

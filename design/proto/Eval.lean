/-! Prototype: fuel-based node interpreter; C13-style and C05-style theorems by induction on fuel. -/
namespace ProtoEval

abbrev Env := List (String × Nat)              -- flat econtext (assoc list, first binding wins)

def Env.get (e : Env) (k : String) : Option Nat := (e.find? (·.1 == k)).map (·.2)
def Env.set (e : Env) (k : String) (v : Nat) : Env := (k, v) :: e.filter (·.1 != k)
def Env.del (e : Env) (k : String) : Env := e.filter (·.1 != k)

inductive Expr | lit (n : Nat) | var (x : String) | boom            -- `boom` raises

inductive Node
  | text (s : String)
  | put (e : Expr)                           -- ${e}
  | seq (ns : List Node)
  | define (x : String) (e : Expr) (body : Node)     -- local define with backup/restore
  | onError (fallback : String) (body : Node)
  | rep (x : String) (xs : List Nat) (body : Node)

structure St where
  out : List String
  env : Env

inductive Res | ok (s : St) | raised (s : St) | outOfFuel

def evalE (env : Env) : Expr → Option Nat
  | .lit n => some n
  | .var x => env.get x
  | .boom => none

mutual
def eval (q : Bool) : Nat → Node → St → Res
  | 0, _, _ => .outOfFuel
  | f+1, .text s, st => .ok { st with out := st.out ++ [s] }
  | f+1, .put e, st =>
      match evalE st.env e with
      | some v => .ok { st with out := st.out ++ [toString v] }
      | none => .raised st
  | f+1, .seq ns, st => evalList q f ns st
  | f+1, .define x e body, st =>
      match evalE st.env e with
      | none => .raised st
      | some v =>
        let backup := st.env.get x
        match eval q f body { st with env := st.env.set x v } with
        | .ok st' => .ok { st' with env := match backup with | some b => st'.env.set x b | none => st'.env.del x }
        | r => r                         -- exception skips the restore (the code's behaviour, D-05c)
  | f+1, .onError fb body, st =>
      let saved := st.out.length
      match eval q f body st with
      | .ok st' => .ok st'
      | .raised st' => .ok { out := st'.out.take saved ++ [fb], env := if q then st'.env else st.env }
      | .outOfFuel => .outOfFuel
  | f+1, .rep x xs body, st =>
      let backup := st.env.get x
      match evalRep q f x xs body st with
      | .ok st' => .ok { st' with env := match backup with | some b => st'.env.set x b | none => st'.env.del x }
      | r => r
def evalList (q : Bool) : Nat → List Node → St → Res
  | 0, _, _ => .outOfFuel
  | _+1, [], st => .ok st
  | f+1, n :: ns, st =>
      match eval q f n st with
      | .ok st' => evalList q f ns st'
      | r => r
def evalRep (q : Bool) : Nat → String → List Nat → Node → St → Res
  | 0, _, _, _, _ => .outOfFuel
  | _+1, _, [], _, st => .ok st
  | f+1, x, v :: vs, body, st =>
      match eval q f body { st with env := st.env.set x v } with
      | .ok st' => evalRep q f x vs body st'
      | r => r
end

/-- Output only grows: what was emitted before a node stays a prefix, whether the node
    terminates normally or raises. (Needed for the on-error truncation to be exact.) -/
theorem out_prefix (q : Bool) : ∀ (f : Nat),
    (∀ n st st', (eval q f n st = .ok st' ∨ eval q f n st = .raised st') → st.out <+: st'.out) ∧
    (∀ ns st st', (evalList q f ns st = .ok st' ∨ evalList q f ns st = .raised st') → st.out <+: st'.out) ∧
    (∀ x xs b st st', (evalRep q f x xs b st = .ok st' ∨ evalRep q f x xs b st = .raised st') → st.out <+: st'.out) := by
  intro f
  induction f with
  | zero => refine ⟨?_, ?_, ?_⟩ <;> intros <;> simp_all [eval, evalList, evalRep]
  | succ f ih =>
    obtain ⟨ihE, ihL, ihR⟩ := ih
    refine ⟨?_, ?_, ?_⟩
    · intro n st st' h
      cases n with
      | text s => simp [eval] at h; subst h; simp
      | put e =>
        simp only [eval] at h
        split at h <;> simp at h <;> subst h <;> simp [List.prefix_refl]
      | seq ns => simp only [eval] at h; exact ihL _ _ _ h
      | define x e body =>
        simp only [eval] at h
        split at h
        · simp at h; subst h; exact List.prefix_refl _
        · split at h
          · rename_i st1 heq
            simp at h; subst h
            have := ihE body _ _ (Or.inl heq)
            simpa using this
          · rename_i r hne
            rcases h with h | h
            · exact absurd h (by intro hh; exact hne _ hh)
            · have := ihE body _ _ (Or.inr h)
              simpa using this
      | onError fb body =>
        simp only [eval] at h
        split at h
        · rename_i st1 heq; simp at h; subst h; exact ihE body _ _ (Or.inl heq)
        · rename_i st1 heq
          simp at h; subst h
          have hp := ihE body _ _ (Or.inr heq)
          obtain ⟨t, ht⟩ := hp
          simp only []
          rw [← ht]; simp [List.take_append]
        · simp at h
      | rep x xs body =>
        simp only [eval] at h
        split at h
        · rename_i st1 heq; simp at h; subst h
          have := ihR _ _ _ _ _ (Or.inl heq)
          simpa using this
        · rename_i r hne
          rcases h with h | h
          · exact absurd h (by intro hh; exact hne _ hh)
          · exact ihR _ _ _ _ _ (Or.inr h)
    · intro ns st st' h
      cases ns with
      | nil => simp [evalList] at h; subst h; exact List.prefix_refl _
      | cons n ns =>
        simp only [evalList] at h
        split at h
        · rename_i st1 heq
          exact List.IsPrefix.trans (ihE n _ _ (Or.inl heq)) (ihL ns _ _ h)
        · rename_i r hne
          rcases h with h | h
          · exact absurd h (by intro hh; exact hne _ hh)
          · exact ihE n _ _ (Or.inr h)
    · intro x xs b st st' h
      cases xs with
      | nil => simp [evalRep] at h; subst h; exact List.prefix_refl _
      | cons v vs =>
        simp only [evalRep] at h
        split at h
        · rename_i st1 heq
          have h1 := ihE b _ _ (Or.inl heq)
          exact List.IsPrefix.trans (by simpa using h1) (ihR x vs b _ _ h)
        · rename_i r hne
          rcases h with h | h
          · exact absurd h (by intro hh; exact hne _ hh)
          · have := ihE b _ _ (Or.inr h)
            simpa using this

/-- C13 shape: when the guarded body raises, the result is exactly what was there before
    plus the fallback; nothing the body emitted survives, nothing before it is touched. -/
theorem onError_exact (q : Bool) (f : Nat) (fb : String) (body : Node) (st st1 : St)
    (h : eval q f body st = .raised st1) :
    ∃ st', eval q (f+1) (.onError fb body) st = .ok st' ∧ st'.out = st.out ++ [fb] := by
  obtain ⟨t, ht⟩ := (out_prefix q f).1 body st st1 (Or.inr h)
  refine ⟨{ out := st1.out.take st.out.length ++ [fb], env := if q then st1.env else st.env }, by simp [eval, h], ?_⟩
  simp [← ht, List.take_append]

/-- Nested handlers: an inner handler that recovered does not disturb the outer one
    (each handler has its own saved length). -/
example : (match eval true 10 (.seq [.text "A", .onError "E" (.seq [.text "B", .onError "F" (.put .boom), .text "C", .put .boom]), .text "D"]) ⟨[], []⟩ with
           | .ok st => st.out | _ => ["?"]) = ["A", "E", "D"] := by decide

#print axioms onError_exact

theorem get_set_same (e : Env) (x : String) (v : Nat) : (e.set x v).get x = some v := by
  simp [Env.set, Env.get]
theorem get_set_other (e : Env) (x y : String) (v : Nat) (h : y ≠ x) : (e.set x v).get y = e.get y := by
  simp only [Env.set, Env.get, List.find?_cons]
  have hxy : ((x, v).1 == y) = false := by simpa using fun hh => h hh.symm
  simp only [hxy]
  congr 1
  induction e with
  | nil => rfl
  | cons p ps ih =>
    simp only [List.filter_cons]
    by_cases hp : p.1 = x
    · have hxy' : (x == y) = false := by simpa using fun hh => h hh.symm
      have : (p.1 == y) = false := by rw [hp]; exact hxy'
      simp [hp, List.find?_cons, this, hxy', ih]
    · simp [hp, List.find?_cons, ih]
theorem get_del_same (e : Env) (x : String) : (e.del x).get x = none := by
  simp [Env.del, Env.get]
theorem get_del_other (e : Env) (x y : String) (h : y ≠ x) : (e.del x).get y = e.get y := by
  simp only [Env.del, Env.get]
  congr 1
  induction e with
  | nil => rfl
  | cons p ps ih =>
    simp only [List.filter_cons]
    by_cases hp : p.1 = x
    · have hxy' : (x == y) = false := by simpa using fun hh => h hh.symm
      have : (p.1 == y) = false := by rw [hp]; exact hxy'
      simp [hp, List.find?_cons, this, hxy', ih]
    · simp [hp, List.find?_cons, ih]

def restore (backup : Option Nat) (env : Env) (x : String) : Env :=
  match backup with | some b => env.set x b | none => env.del x

theorem restore_get (env env0 : Env) (x y : String) (hy : ∀ z, z ≠ x → env.get z = env0.get z) :
    (restore (env0.get x) env x).get y = env0.get y := by
  by_cases h : y = x
  · subst h
    cases hb : env0.get y with
    | none => simp [restore, get_del_same]
    | some b => simp [restore, get_set_same]
  · cases hb : env0.get x with
    | none => simp [restore, get_del_other _ _ _ h, hy y h]
    | some b => simp [restore, get_set_other _ _ _ _ h, hy y h]

/-- C05 shape (frame theorem): a node that terminates normally leaves every variable's
    visible binding — present or absent — exactly as it found it. -/
theorem env_frame : ∀ (f : Nat),  -- ideal model: q = false
    (∀ n st st', eval false f n st = .ok st' → ∀ y, st'.env.get y = st.env.get y) ∧
    (∀ ns st st', evalList false f ns st = .ok st' → ∀ y, st'.env.get y = st.env.get y) ∧
    (∀ x xs b st st', evalRep false f x xs b st = .ok st' → ∀ y, y ≠ x → st'.env.get y = st.env.get y) := by
  intro f
  induction f with
  | zero => refine ⟨?_, ?_, ?_⟩ <;> intros <;> simp_all [eval, evalList, evalRep]
  | succ f ih =>
    obtain ⟨ihE, ihL, ihR⟩ := ih
    refine ⟨?_, ?_, ?_⟩
    · intro n st st' h y
      cases n with
      | text s => simp [eval] at h; subst h; rfl
      | put e => simp only [eval] at h; split at h <;> simp at h; subst h; rfl
      | seq ns => simp only [eval] at h; exact ihL _ _ _ h y
      | define x e body =>
        simp only [eval] at h
        split at h
        · simp at h
        · rename_i v hv
          split at h
          · rename_i st1 heq
            simp at h; subst h
            have hb := ihE body _ _ heq
            simp only [] at hb ⊢
            exact restore_get st1.env st.env x y (fun z hz => by rw [hb z, get_set_other _ _ _ _ hz])
          · rename_i r hne; exact absurd h (by intro hh; exact hne _ hh)
      | onError fb body =>
        simp only [eval] at h
        split at h
        · rename_i st1 heq; simp at h; subst h; exact ihE body _ _ heq y
        · rename_i st1 heq; simp at h; subst h; rfl   -- ideal model restores the handler's entry scope
        · simp at h
      | rep x xs body =>
        simp only [eval] at h
        split at h
        · rename_i st1 heq
          simp at h; subst h
          exact restore_get st1.env st.env x y (fun z hz => ihR _ _ _ _ _ heq z hz)
        · rename_i r hne; exact absurd h (by intro hh; exact hne _ hh)
    · intro ns st st' h y
      cases ns with
      | nil => simp [evalList] at h; subst h; rfl
      | cons n ns =>
        simp only [evalList] at h
        split at h
        · rename_i st1 heq; rw [ihL ns _ _ h y, ihE n _ _ heq y]
        · rename_i r hne; exact absurd h (by intro hh; exact hne _ hh)
    · intro x xs b st st' h y hy
      cases xs with
      | nil => simp [evalRep] at h; subst h; rfl
      | cons v vs =>
        simp only [evalRep] at h
        split at h
        · rename_i st1 heq
          rw [ihR x vs b _ _ h y hy, ihE b _ _ heq y]
          simp [get_set_other _ _ _ _ hy]
        · rename_i r hne; exact absurd h (by intro hh; exact hne _ hh)

/-- The code as it is today (q = true) violates the frame property: D-05c. -/
example : (match eval true 10 (.seq [.onError "E" (.define "x" (.lit 1) (.put .boom))]) ⟨[], []⟩ with
           | .ok st => st.env.get "x" | _ => none) = some 1 := by decide
#print axioms env_frame
end ProtoEval

/-! Prototype: escape / unescape (C02 core). -/
namespace ProtoEsc

def amp : List Char := ['&','a','m','p',';']
def lt  : List Char := ['&','l','t',';']
def gt  : List Char := ['&','g','t',';']
def quot : List Char := ['&','q','u','o','t',';']
def apos : List Char := ['&','#','3','9',';']

inductive Q | none | dq | sq deriving DecidableEq

def qChar : Q → Option Char | .none => Option.none | .dq => some '"' | .sq => some '\''
def qEnt : Q → List Char | .none => [] | .dq => quot | .sq => apos

def rep1 (c : Char) (r : List Char) (x : Char) : List Char := if x = c then r else [x]
def replace1 (c : Char) (r : List Char) (s : List Char) : List Char := s.flatMap (rep1 c r)

/-- the implementation's chain of `str.replace` calls -/
def escapeSeq (q : Q) (s : List Char) : List Char :=
  let s3 := replace1 '>' gt (replace1 '<' lt (replace1 '&' amp s))
  match q with
  | .none => s3
  | .dq => replace1 '"' quot s3
  | .sq => replace1 '\'' apos s3

def escChar (q : Q) (c : Char) : List Char :=
  if c = '&' then amp else if c = '<' then lt else if c = '>' then gt
  else if qChar q = some c then qEnt q else [c]

def escapeMap (q : Q) (s : List Char) : List Char := s.flatMap (escChar q)

theorem replace1_flatMap (c : Char) (r : List Char) (f : Char → List Char) (s : List Char) :
    replace1 c r (s.flatMap f) = s.flatMap (fun x => replace1 c r (f x)) := by
  simp [replace1, List.flatMap_assoc]

theorem flatMap_rep1_eq (c : Char) (r : List Char) (s : List Char) :
    s.flatMap (rep1 c r) = s.flatMap (fun x => rep1 c r x) := rfl

theorem escapeSeq_eq_map (q : Q) (s : List Char) : escapeSeq q s = escapeMap q s := by
  unfold escapeSeq escapeMap
  have h1 : replace1 '&' amp s = s.flatMap (rep1 '&' amp) := rfl
  cases q <;> simp only [h1, replace1_flatMap] <;> congr 1 <;> funext c <;>
    simp only [escChar, rep1, replace1, qChar, qEnt, amp, lt, gt, quot, apos]
  all_goals
    by_cases ha : c = '&'
    · subst ha; decide
    · by_cases hl : c = '<'
      · subst hl; decide
      · by_cases hg : c = '>'
        · subst hg; decide
        · by_cases hd : c = '"'
          · subst hd; decide
          · by_cases hs : c = '\''
            · subst hs; decide
            · have hd' : ¬ '"' = c := fun h => hd h.symm
              have hs' : ¬ '\'' = c := fun h => hs h.symm
              simp [rep1, ha, hl, hg, hd, hs, hd', hs', List.flatMap]

/-- No raw markup character survives. -/
theorem escChar_no_raw (q : Q) (c x : Char) (hx : x ∈ escChar q c) :
    x ≠ '<' ∧ x ≠ '>' ∧ (qChar q = some x → False) := by
  unfold escChar at hx
  by_cases ha : c = '&'
  · simp [ha, amp] at hx; rcases hx with h|h|h|h|h <;> subst h <;> cases q <;> simp [qChar] <;> decide
  · by_cases hl : c = '<'
    · simp [ha, hl, lt] at hx; rcases hx with h|h|h|h <;> subst h <;> cases q <;> simp [qChar] <;> decide
    · by_cases hg : c = '>'
      · simp [ha, hl, hg, gt] at hx; rcases hx with h|h|h|h <;> subst h <;> cases q <;> simp [qChar] <;> decide
      · by_cases hq : qChar q = some c
        · simp [ha, hl, hg, hq] at hx
          cases q
          · simp [qChar] at hq
          · simp [qEnt, quot] at hx; rcases hx with h|h|h|h|h|h <;> subst h <;> simp [qChar] <;> decide
          · simp [qEnt, apos] at hx; rcases hx with h|h|h|h|h <;> subst h <;> simp [qChar] <;> decide
        · simp [ha, hl, hg, hq] at hx
          subst hx
          exact ⟨hl, hg, fun h => hq h⟩

theorem escape_no_raw (q : Q) (s : List Char) (x : Char) (hx : x ∈ escapeSeq q s) :
    x ≠ '<' ∧ x ≠ '>' ∧ (qChar q = some x → False) := by
  rw [escapeSeq_eq_map] at hx
  simp only [escapeMap, List.mem_flatMap] at hx
  obtain ⟨c, _, hc⟩ := hx
  exact escChar_no_raw q c x hc

/-- left-to-right entity decoder -/
def unescape (q : Q) : List Char → List Char
  | '&' :: 'a' :: 'm' :: 'p' :: ';' :: r => '&' :: unescape q r
  | '&' :: 'l' :: 't' :: ';' :: r => '<' :: unescape q r
  | '&' :: 'g' :: 't' :: ';' :: r => '>' :: unescape q r
  | '&' :: 'q' :: 'u' :: 'o' :: 't' :: ';' :: r => '"' :: unescape q r
  | '&' :: '#' :: '3' :: '9' :: ';' :: r => '\'' :: unescape q r
  | c :: r => c :: unescape q r
  | [] => []

theorem unescape_escChar (q : Q) (c : Char) (r : List Char) :
    unescape q (escChar q c ++ r) = c :: unescape q r := by
  unfold escChar
  by_cases ha : c = '&'
  · subst ha; simp [amp, unescape]
  · by_cases hl : c = '<'
    · subst hl; simp [lt, unescape]
    · by_cases hg : c = '>'
      · subst hg; simp [gt, unescape]
      · by_cases hq : qChar q = some c
        · cases q
          · simp [qChar] at hq
          · simp [qChar] at hq; subst hq; simp [qEnt, quot, unescape, qChar]
          · simp [qChar] at hq; subst hq; simp [qEnt, apos, unescape, qChar]
        · simp only [ha, hl, hg, hq, if_false, List.singleton_append]
          -- plain character, not '&': the decoder copies it
          rw [unescape.eq_def]
          split <;> simp_all

theorem unescape_escape (q : Q) (s : List Char) : unescape q (escapeSeq q s) = s := by
  rw [escapeSeq_eq_map]
  induction s with
  | nil => simp [escapeMap, unescape]
  | cons c s ih =>
    simp only [escapeMap, List.flatMap_cons] at ih ⊢
    rw [unescape_escChar, ih]

#print axioms unescape_escape
#print axioms escape_no_raw
end ProtoEsc

/-! Prototype: backtracking regex semantics (Python `re` subset), CPS style. -/
namespace Proto

inductive Re where
  | eps
  | cls (p : Char → Bool)              -- one char satisfying p
  | seq (a b : Re)
  | alt (a b : Re)
  | star (greedy : Bool) (r : Re)      -- r*  / r*?
  | look (neg : Bool) (r : Re)         -- (?=r) / (?!r)
  | grp (i : Nat) (r : Re)             -- capture group i
  | bref (i : Nat)

abbrev Caps := List (Nat × Nat × Nat)  -- group, start, end

structure St where
  pos : Nat
  caps : Caps

abbrev K (α : Type) := St → Option α
abbrev M (α : Type) := St → K α → Option α

/-- star loop with fuel; an iteration that consumes nothing stops the loop (sre behaviour). -/
def starM {α} (greedy : Bool) (body : M α) : Nat → M α
  | 0, st, k => k st
  | fuel+1, st, k =>
    let more : Option α := body st (fun st' => if st'.pos > st.pos then starM greedy body fuel st' k else none)
    if greedy then more <|> k st else k st <|> more

def sub (s : Array Char) (a b : Nat) : List Char := (s.toList.drop a).take (b - a)

def den {α} (s : Array Char) : Re → M α
  | .eps, st, k => k st
  | .cls p, st, k => if h : st.pos < s.size then (if p s[st.pos] then k { st with pos := st.pos + 1 } else none) else none
  | .seq a b, st, k => den s a st (fun st' => den s b st' k)
  | .alt a b, st, k => den s a st k <|> den s b st k
  | .star g r, st, k => starM g (den s r) (s.size - st.pos + 1) st k
  | .look neg r, st, k =>
      match den (α := Unit) s r st (fun _ => some ()) with
      | some _ => if neg then none else k st
      | none => if neg then k st else none
  | .grp i r, st, k => den s r st (fun st' => k { st' with caps := (i, st.pos, st'.pos) :: st'.caps })
  | .bref i, st, k =>
      match st.caps.find? (·.1 == i) with
      | none => none
      | some (_, a, b) =>
        let w := sub s a b
        if sub s st.pos (st.pos + w.length) == w && st.pos + w.length ≤ s.size then k { st with pos := st.pos + w.length } else none

def matchAt (s : Array Char) (r : Re) (i : Nat) : Option St :=
  den s r { pos := i, caps := [] } some

def plus (g : Bool) (r : Re) : Re := .seq r (.star g r)
def opt (r : Re) : Re := .alt r .eps
def chr (c : Char) : Re := .cls (· == c)
def nchr (c : Char) : Re := .cls (· != c)

/-- shape of XML_SPE: `[^<]+ | <(?:R)?` -/
def spe (R : Re) : Re := .alt (plus true (nchr '<')) (.seq (chr '<') (opt R))

theorem starM_some {α} (g : Bool) (body : M α) (fuel : Nat) (st : St) (k : K α)
    (hk : (k st).isSome) : (starM g body fuel st k).isSome := by
  cases fuel with
  | zero => simpa [starM] using hk
  | succ n =>
    simp only [starM]
    cases g <;> simp
    · cases h : k st with
      | none => simp [h] at hk
      | some v => simp
    · cases h1 : body st (fun st' => if st'.pos > st.pos then starM true body n st' k else none) with
      | some v => simp
      | none => simpa using hk


theorem starM_mono {α} (g : Bool) (body : M α) (hb : ∀ st k v, body st k = some v → ∃ st', st'.pos ≥ st.pos ∧ k st' = some v)
    (fuel : Nat) : ∀ (st : St) (k : K α) (v : α), starM g body fuel st k = some v → ∃ st', st'.pos ≥ st.pos ∧ k st' = some v := by
  induction fuel with
  | zero => intro st k v h; exact ⟨st, Nat.le_refl _, by simpa [starM] using h⟩
  | succ n ih =>
    intro st k v h
    simp only [starM] at h
    have hmore : ∀ v, body st (fun st' => if st'.pos > st.pos then starM g body n st' k else none) = some v →
        ∃ st', st'.pos ≥ st.pos ∧ k st' = some v := by
      intro v hv
      obtain ⟨st1, h1, h2⟩ := hb _ _ _ hv
      by_cases hp : st1.pos > st.pos
      · simp [hp] at h2
        obtain ⟨st2, h3, h4⟩ := ih _ _ _ h2
        exact ⟨st2, by omega, h4⟩
      · simp [hp] at h2
    cases g
    · simp at h
      cases hk : k st with
      | some w => simp [hk] at h; exact ⟨st, Nat.le_refl _, by rw [hk, h]⟩
      | none => simp [hk] at h; exact hmore v h
    · simp at h
      cases hm : body st (fun st' => if st'.pos > st.pos then starM true body n st' k else none) with
      | some w => simp [hm] at h; subst h; exact hmore w hm
      | none => simp [hm] at h; exact ⟨st, Nat.le_refl _, h⟩

theorem den_mono {α} (s : Array Char) (r : Re) : ∀ (st : St) (k : K α) (v : α),
    den s r st k = some v → ∃ st', st'.pos ≥ st.pos ∧ k st' = some v := by
  induction r generalizing α with
  | eps => intro st k v h; exact ⟨st, Nat.le_refl _, h⟩
  | cls p =>
    intro st k v h
    simp only [den] at h
    split at h
    · split at h
      · exact ⟨_, by simp, h⟩
      · simp at h
    · simp at h
  | seq a b iha ihb =>
    intro st k v h
    simp only [den] at h
    obtain ⟨st1, h1, h2⟩ := iha _ _ _ h
    obtain ⟨st2, h3, h4⟩ := ihb _ _ _ h2
    exact ⟨st2, by omega, h4⟩
  | alt a b iha ihb =>
    intro st k v h
    simp only [den] at h
    cases ha : den s a st k with
    | some w => simp [ha] at h; subst h; exact iha _ _ _ ha
    | none => simp [ha] at h; exact ihb _ _ _ h
  | star g r ih =>
    intro st k v h
    simp only [den] at h
    exact starM_mono g (den s r) (fun st k v => ih st k v) _ st k v h
  | look neg r _ =>
    intro st k v h
    simp only [den] at h
    split at h <;> split at h <;> first | (simp at h) | exact ⟨st, Nat.le_refl _, h⟩
  | grp i r ih =>
    intro st k v h
    simp only [den] at h
    obtain ⟨st1, h1, h2⟩ := ih _ _ _ h
    exact ⟨{ st1 with caps := (i, st.pos, st1.pos) :: st1.caps }, h1, h2⟩
  | bref i =>
    intro st k v h
    simp only [den] at h
    split at h
    · simp at h
    · split at h
      · exact ⟨_, by simp, h⟩
      · simp at h

theorem spe_total (R : Re) (s : Array Char) (i : Nat) (h : i < s.size) :
    ∃ st, matchAt s (spe R) i = some st ∧ st.pos > i := by
  unfold matchAt spe
  by_cases hc : s[i] = '<'
  · -- first alternative fails, second succeeds
    have h1 : den (α := St) s (plus true (nchr '<')) { pos := i, caps := [] } some = none := by
      simp [plus, den, nchr, h, hc]
    simp only [den] at h1 ⊢
    rw [h1]
    simp only [chr, h, hc, dite_true, beq_self_eq_true, ite_true, opt, den, Option.none_or]
    show ∃ st, ((den s R { pos := i + 1, caps := [] } some <|> some { pos := i + 1, caps := [] }) = some st) ∧ st.pos > i
    cases hR : den (α := St) s R { pos := i + 1, caps := [] } some with
    | some v =>
      obtain ⟨st', hp, hk⟩ := den_mono s R _ _ _ hR
      simp at hk; subst hk
      exact ⟨st', by simp, by simp at hp; omega⟩
    | none => exact ⟨{ pos := i + 1, caps := [] }, by simp, by simp⟩
  · have h1 : ∃ v, den (α := St) s (plus true (nchr '<')) { pos := i, caps := [] } some = some v := by
      simp only [plus, den, nchr, h, dite_true]
      have : (s[i] != '<') = true := by simpa using hc
      simp only [this, ite_true]
      have := starM_some (α := St) true (den s (.cls (· != '<'))) (s.size - (i + 1) + 1) { pos := i + 1, caps := [] } some (by simp)
      exact Option.isSome_iff_exists.mp this
    obtain ⟨v, hv⟩ := h1
    simp only [den] at hv ⊢
    refine ⟨v, by simp [hv], ?_⟩
    -- position: v came from cls then star
    simp only [plus, den, nchr, h, dite_true] at hv
    have : (s[i] != '<') = true := by simpa using hc
    simp only [this, ite_true] at hv
    obtain ⟨st', hp, hk⟩ := starM_mono true (den s (.cls (· != '<'))) (fun st k v => den_mono s _ st k v) _ _ _ _ hv
    simp at hk; subst hk; simp at hp; omega
end Proto
#print axioms Proto.spe_total
#eval (Proto.matchAt "ab<c d=1>x".toList.toArray (Proto.spe (Proto.plus true (Proto.nchr '>'))) 2).map (·.pos)

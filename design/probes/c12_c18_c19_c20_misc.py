import os, tempfile, time
from chameleon import PageTemplate, PageTemplateFile, PageTextTemplate, PageTextTemplateFile, PageTemplateLoader
from chameleon.exc import RenderError, ExpressionError
def r(src, **kw):
    cfg = kw.pop('cfg', {})
    try:
        out = PageTemplate(src, **cfg)(**kw)
        print(repr(src), '->', repr(out))
    except BaseException as e:
        print(repr(src), 'EXC', type(e).__name__, [c.__name__ for c in type(e).__mro__], repr(e.args)[:60], '|', str(e).replace('\n',' / ')[:300])
def boom(cls, *a):
    def f(): raise cls(*a)
    return f
class Custom(Exception):
    def __init__(self, a, b): super().__init__(a, b); self.b = b
    def __str__(self): return 'custom!'
# C12
r('<p>\n  ${f()}</p>', f=boom(KeyError, 'k'))
r('<p>${f()}</p>', f=boom(KeyboardInterrupt))
r('<p>${f()}</p>', f=boom(SystemExit, 3))
r('<p>${f()}</p>', f=boom(Custom, 1, 2))
r('<p>${f()}</p>', f=boom(RecursionError, 'deep'))
r('<p tal:define="a 1; b f()">x</p>', f=boom(ValueError, 'v'))
r('<p tal:attributes="a 1; b f()">x</p>', f=boom(ValueError, 'v'))
r('<p tal:content="\'&amp;\' + f()">x</p>', f=boom(ValueError, 'v'))
r('<p>${a} ${f()}</p>', a=1, f=boom(ValueError, 'v'))
r('<p class="${a} ${f()}">x</p>', a=1, f=boom(ValueError, 'v'))
r('<p tal:condition="a;;f()">x</p>', a=1, f=boom(ValueError, 'v'))
# C18
r('<a b="1" b="2" tal:content="1"/>')
r('<a tal:content="1" t2:omit-tag="" xmlns:t2="http://xml.zope.org/namespaces/tal" c="3"/>')
r('<a tal:content="1" t2:content="2" xmlns:t2="http://xml.zope.org/namespaces/tal" c="3"/>')
r('<a data-tal-content="1" c="3" data-x-y="4" data-foo="5"/>', cfg=dict(enable_data_attributes=True))
r('<a c="3" data-tal-content="1" tal:omit-tag="0" d="4"/>', cfg=dict(enable_data_attributes=True))
r('<a data-tal-content="1" data-tal-attributes="c 2" c="3" d="4"/>', cfg=dict(enable_data_attributes=True))
r('<a data-x-y="4"/>', cfg=dict(enable_data_attributes=True))
r('<a data-tal-content="1"/>', cfg=dict(enable_data_attributes=False))
r('<tal:block content="1" class="x"/><metal:b define-macro="m">M</metal:b><i18n:x translate="">t</i18n:x>')
r('<a xmlns:foo="urn:f" foo:bar="1" xmlns:tal="http://xml.zope.org/namespaces/tal" xmlns:z="http://xml.zope.org/namespaces/metal" xmlns="urn:d"/>')
r('<a xmlns:q="http://xml.zope.org/namespaces/tal"><b q:content="1"/><q:c replace="2"/><q:d>3</q:d></a>')
r('<a tal:comment="hi" i18n:comment="x" i18n:ignore="" i18n:data="d" i18n:source="en" i18n:mode="m" meta:interpolation="on"/>')
# C19
for strict in (True, False):
    for src, kw in [('<p tal:condition="c">${bad +}</p>', dict(c=0)), ('<p tal:condition="c">${bad +}</p>', dict(c=1)), ('<p tal:content="a | bad +"/>', dict(a=1)), ('<p tal:repeat="x []" tal:content="bad +"/>', {}), ('<div metal:define-macro="m">${bad +}</div>', {})]:
        try:
            t = PageTemplate(src, strict=strict)
        except Exception as e:
            print(strict, repr(src), 'COMPILE', type(e).__name__, e.offset); continue
        try:
            print(strict, repr(src), kw, '->', repr(t(**kw)))
        except Exception as e:
            print(strict, repr(src), kw, 'RENDER', type(e).__name__, getattr(e,'offset',None), isinstance(e, ExpressionError))
# C20
print(repr(PageTextTemplate('<a tal:content="x">&amp; $$ $${x} ${x} $x ${\'}\'} {} $')(x='<&>')))

from chameleon import PageTemplate
for s in ['<!--?!x -->', '<!--?-x -->', '<!--??x -->', '<!--?<x -->', '<!--? x -->', '<!--?x-->']:
    print(repr(s), '->', repr(PageTemplate(s)()))

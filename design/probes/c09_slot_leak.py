from chameleon import PageTemplate
lib = PageTemplate('''<div metal:define-macro="n">N[<p metal:define-slot="b">dB</p>]</div><div metal:define-macro="m">M(<x metal:use-macro="macros.n"/>)</div><div metal:define-macro="k">K(<x metal:use-macro="macros.n"><i metal:fill-slot="zz">z</i></x>)</div>''')
print(PageTemplate('<x metal:use-macro="lib.macros.m"><i metal:fill-slot="b">LEAK</i></x>')(lib=lib))
print(PageTemplate('<x metal:use-macro="lib.macros.k"><i metal:fill-slot="b">LEAK</i></x>')(lib=lib))
print(PageTemplate('<x metal:use-macro="lib.macros.m"><i metal:fill-slot="b">F1</i></x><x metal:use-macro="lib.macros.n"/>')(lib=lib))

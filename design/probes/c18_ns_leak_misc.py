from chameleon import PageTemplate
def r(src, **kw):
    try: print(repr(src), '->', repr(PageTemplate(src)(**kw)))
    except Exception as e: print(repr(src), 'EXC', type(e).__name__, str(e).splitlines()[0])
r('<div xmlns:t="http://xml.zope.org/namespaces/tal"><br></div><p t:content="1">x</p>')
r('<div xmlns:t="http://xml.zope.org/namespaces/tal"><br/></div><p t:content="1">x</p>')
r('<div tal:define="repeat 5"><i tal:repeat="x [1]">${x}</i></div>')
r('<div tal:switch="1" metal:use-macro="m"><p metal:fill-slot="s" tal:case="1">in</p></div>', m=PageTemplate('<b metal:define-slot="s">d</b>'))

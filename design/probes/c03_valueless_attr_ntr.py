from chameleon import PageTemplate
for d in ['<a b n="1">', '<a b t="1"/>', '<input disabled rt="1">', '<a b r=1>', '<a b nt = "1">', '<a b x="1">', '<td nowrap n="1">x</td>', '<a b\nn="1">', '<a b  tr="1">', '<a b c n="2">']:
    out = PageTemplate(d)()
    print('OK  ' if out == d else 'DIFF', repr(d), '->', repr(out))

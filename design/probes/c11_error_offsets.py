from chameleon import PageTemplate
from chameleon.exc import TemplateError
def err(src, **kw):
    try:
        PageTemplate(src, **kw)
    except TemplateError as e:
        tok = e.token
        off = e.offset
        ok = src[off:off+len(tok)] == str(tok)
        print(type(e).__name__, repr(str(tok)), off, e.location, 'ANCHORED' if ok else 'MISANCHORED src=%r' % src[off:off+len(tok)])
    except Exception as e:
        print('OTHER', type(e).__name__, e)
    else:
        print('no error')
# C11 probes
err('<div tal:define="a 1; b 2 +"></div>')
err('<div tal:define="a 1; b 2; c 3 +"></div>')
err('<div tal:define="a \';;\'; c 3 +"></div>')
err('<div tal:define="a \'&amp;\'; c 3 +"></div>')
err('<div tal:attributes="a 1; b 2 +"></div>')
err('<div tal:attributes="a 1; a 2"></div>')
err('<div tal:define="a 1; 2b 2"></div>')
err('<div>\n  ${a +}</div>')
err('<div class="x ${a +}"></div>')
err('<div>\n</span>')
err('<div tal:foo="1"></div>')
err('<div tal:define="econtext 1"></div>')
err('<div tal:define="a 1; econtext 1"></div>')
err('<div tal:content="a" tal:replace="b"></div>')
err('<div tal:define="a 1;\n   b 2 +"></div>')
err('<div tal:condition="a +"></div>')
err('<div tal:condition="  a +"></div>')
err('<div tal:content="structure a +"></div>')
err('<div tal:repeat="x a +"></div>')
err('<div i18n:attributes="a b c"></div>')
err('<div i18n:attributes="a; b,c"></div>')
err('<div metal:fill-slot="x"></div>')
err('<div tal:case="1"></div>')
err('<div meta:interpolation="bad"></div>')
err('<!-- a -- b -->')
err('<div tal:define="x string:${a +}"></div>')
err('<div tal:define="x python: a +"></div>')
err('<div tal:define="x not: a +"></div>')
err('<div tal:define="x b | a +"></div>')

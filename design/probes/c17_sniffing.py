import codecs, os, tempfile, time
from chameleon import PageTemplate, PageTemplateFile, PageTextTemplate, PageTextTemplateFile, PageTemplateLoader
def show(label, f):
    try:
        print(label, '->', f())
    except Exception as e:
        print(label, 'EXC', type(e).__name__, str(e).splitlines()[0][:100])
doc = '<p>é ${1}</p>'
for name, bom, enc in [('utf8', codecs.BOM_UTF8, 'utf-8'), ('u16le', codecs.BOM_UTF16_LE, 'utf-16-le'), ('u16be', codecs.BOM_UTF16_BE, 'utf-16-be'), ('u32le', codecs.BOM_UTF32_LE, 'utf-32-le'), ('u32be', codecs.BOM_UTF32_BE, 'utf-32-be')]:
    for pre in ['', '<?xml version="1.0"?>']:
        b = bom + (pre+doc).encode(enc)
        def f():
            t = PageTemplate(b)
            return repr(t()), t.content_type, t.content_encoding
        show('BOM %s pre=%r' % (name, pre), f)
        b = (pre+doc).encode(enc)
        show('noBOM %s pre=%r' % (name, pre), f)
for decl in ['<?xml version="1.0" encoding="latin-1"?>', "<?xml version='1.0' encoding = 'cp1251' ?>", '<?xml version="1.0" encoding=latin-1?>', '<?xml version="1.0"?><a encoding="cp1251"/>']:
    b = (decl + ('<p>é</p>' if 'latin' in decl else '<p>Ж</p>')).encode('latin-1' if 'latin' in decl else 'cp1251')
    def f():
        t = PageTemplate(b); return repr(t()), t.content_type, t.content_encoding
    show(decl, f)
for meta in ['<meta http-equiv="Content-Type" content="text/html; charset=latin-1">', "<meta content='text/html; charset=latin-1' http-equiv='Content-Type'>", '<META HTTP-EQUIV=Content-Type CONTENT="text/html;charset=latin-1"/>', '<meta charset="latin-1">', '<meta http-equiv="Content-Type" content="application/xhtml+xml; charset=latin-1">']:
    b = ('<html><head>' + meta + '</head><p>é</p></html>').encode('latin-1')
    def f():
        t = PageTemplate(b); return repr(t()), t.content_type, t.content_encoding
    show(meta, f)
    s = b.decode('latin-1')
    def g():
        t = PageTemplate(s); return repr(t()), t.content_type, t.content_encoding
    show('  as str', g)
show('xml str', lambda: (lambda t: (t(), t.content_type, t.content_encoding))(PageTemplate('<?xml version="1.0" encoding="x"?>\r\n<input checked="${0}"/>')))
show('html str', lambda: (lambda t: (t(), t.content_type, t.content_encoding))(PageTemplate('<input checked="${0}"/>\r\n')))
show('xml ws str', lambda: (lambda t: (t(), t.content_type, t.content_encoding))(PageTemplate(' <?xml version="1.0"?><input checked="${0}"/>')))
show('xmlfoo', lambda: (lambda t: (t(), t.content_type, t.content_encoding))(PageTemplate('<?xmlfoo?><input checked="${0}"/>')))

import os, sys, tempfile, time
from chameleon import PageTemplate, PageTemplateFile, PageTemplateLoader
src = '<input checked="${v}" title="t ${v}"/><!-- ${v} -->'
print('A', PageTemplate(src)(v=0))
print('B', PageTemplate(src, boolean_attributes={'title'})(v=0))
print('C', PageTemplate(src, enable_comment_interpolation=False)(v=0))
print(sorted(os.listdir(os.environ['CHAMELEON_CACHE'])))
# C16 stale macros
d = tempfile.mkdtemp()
fn = os.path.join(d, 't.pt')
open(fn,'w').write('<p metal:define-macro="a">A1</p><p metal:define-macro="b">B1</p>')
t = PageTemplateFile(fn, auto_reload=True)
print(t(), sorted(t.macros.names), t.content_type)
open(fn,'w').write('<?xml version="1.0"?><p metal:define-macro="a">A2</p>')
os.utime(fn, (time.time()+10, time.time()+10))
print(t(), sorted(t.macros.names), t.content_type)
try:
    print(PageTemplate('<x metal:use-macro="t.macros.b"/>')(t=t))
except Exception as e: print('EXC', type(e).__name__)

from chameleon import PageTextTemplate
for s in ['<b>${x}</b>', '<b tal:content="x">', 'a <b>${x}</b> $$ ${\'}\'} $x {}', '<!-- ${x} -->', '<?python y=1?>', '</b>', '<b/>', '<!--! drop -->', '<![CDATA[${x}]]>', 'x ${x} &amp; ${"<"}', '${x}\r\n$$$${x}$$$$ ${ x }']:
    try:
        print(repr(s), '->', repr(PageTextTemplate(s)(x='<&>')))
    except Exception as e:
        print(repr(s), 'EXC', type(e).__name__, str(e).splitlines()[0])

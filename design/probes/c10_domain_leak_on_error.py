from chameleon import PageTemplate
def tr(msgid, domain=None, context=None, target_language=None, **kw):
    return 'T[%s|%s|%s|%s]' % (msgid, domain, context, target_language)
print(PageTemplate('<p i18n:domain="d" i18n:context="c" i18n:target="string:de" tal:on-error="string:E">${1/0}</p><i i18n:translate="">x</i>')(translate=tr))
print(PageTemplate('<p i18n:domain="d"><b i18n:translate="">y</b></p><i i18n:translate="">x</i>')(translate=tr))
print(PageTemplate('<i i18n:translate="">${True} ${[1]}</i>')(translate=lambda m, **kw: (print('  call', repr(m)), m)[1]))

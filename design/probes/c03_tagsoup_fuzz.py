import random
from chameleon import PageTemplate
from chameleon.exc import TemplateError
alpha = ['<','>','/','a','b',' ','=','"',"'",'\n','x',':','1','-','\t','&','é']
rnd = random.Random(7)
seen=set(); bad=0; ok=0; terr=0; other={}
for n in range(150000):
    k = rnd.randint(1,14)
    s = ''.join(rnd.choice(alpha) for _ in range(k))
    if rnd.random()<0.7: s = '<a' + s
    if s in seen: continue
    seen.add(s)
    try:
        out = PageTemplate(s)()
    except TemplateError as e:
        terr+=1; continue
    except Exception as e:
        other.setdefault(type(e).__name__+':'+str(e)[:40], s); continue
    if out != s:
        bad+=1
        if bad<=25: print('DIFF', repr(s), '->', repr(out))
    else: ok+=1
print('ok',ok,'bad',bad,'terr',terr)
for k,v in other.items(): print('OTHER', k, repr(v))

from chameleon import PageTemplate
def tr(msgid, mapping=None, **kw):
    return 'T[%s|%s]' % (msgid, ','.join(mapping or ()))
t = PageTemplate('<p i18n:translate=""><b i18n:name="alpha">1</b><b i18n:name="beta">2</b><b i18n:name="gamma">3</b><b i18n:name="delta">4</b></p>')
print(t(translate=tr))

import re, re._parser as sp, collections
from chameleon import tokenize, parser, tal, utils, compiler, tales, i18n
from chameleon.zpt import program
pats = {
 'XML_SPE': tokenize.re_xml_spe, 'match_tag_prefix_and_name': parser.match_tag_prefix_and_name,
 'match_single_attribute': parser.match_single_attribute, 'match_double_hyphen': parser.match_double_hyphen,
 'match_comment': parser.match_comment, 'match_cdata': parser.match_cdata, 'match_declaration': parser.match_declaration,
 'match_pi': parser.match_processing_instruction, 'match_xml_declaration': parser.match_xml_declaration,
 'DEFINE_RE': tal.DEFINE_RE, 'SUBST_RE': tal.SUBST_RE, 'ATTR_RE': tal.ATTR_RE, 'ENTITY_RE': tal.ENTITY_RE,
 'entity_re': utils.entity_re, 'RE_META': utils.RE_META, 'RE_ENCODING': utils.RE_ENCODING,
 'braces_required': compiler.Interpolator.braces_required_regex, 'braces_optional': compiler.Interpolator.braces_optional_regex,
 'RE_MANGLE': compiler.RE_MANGLE, 'RE_NAME': compiler.RE_NAME, 'split_parts': tales.split_parts, 're_continuation': tales.re_continuation,
 'interp': i18n._interp_regex, 're_trim': program.re_trim, 're_dotted': tales.ImportExpr.re_dotted,
}
ops = collections.Counter()
def walk(p):
    for op, av in p:
        ops[str(op)] += 1
        if str(op) in ('MAX_REPEAT','MIN_REPEAT','POSSESSIVE_REPEAT'): walk(av[2])
        elif str(op)=='SUBPATTERN': walk(av[3]); 
        elif str(op)=='BRANCH':
            for b in av[1]: walk(b)
        elif str(op) in ('ASSERT','ASSERT_NOT'): ops[str(op)+('_ahead' if av[0]==1 else '_behind')]+=1; walk(av[1])
        elif str(op)=='IN':
            for o,a in av: ops['IN.'+str(o)+('.'+str(a) if str(o)=='CATEGORY' else '')]+=1
        elif str(op)=='AT': ops['AT.'+str(av)]+=1
        elif str(op)=='ATOMIC_GROUP': walk(av)
for n,p in pats.items():
    t = sp.parse(p.pattern, p.flags)
    walk(t)
    print(n, 'flags', re.RegexFlag(p.flags), 'len', len(p.pattern))
for k,v in sorted(ops.items()): print(k, v)
m = tales.match_prefix; print(m.__self__.pattern)

import random, itertools
from chameleon import PageTemplate
from chameleon.tokenize import iter_xml
from chameleon.exc import TemplateError
alpha = ['<','>','/','!','-','?','[',']','a','b',' ','=','"',"'",'&',';','\n','$','{','}','C','D','A','T','x',':']
rnd = random.Random(1)
bad = 0
for n in range(200000):
    s = ''.join(rnd.choice(alpha) for _ in range(rnd.randint(0,12)))
    toks = list(iter_xml(s))
    if ''.join(toks) != s or any(t.pos != sum(len(x) for x in toks[:i]) for i,t in enumerate(toks)):
        bad += 1
        if bad < 5: print('TOKENIZER LOSS', repr(s), toks)
print('tokenizer bad', bad)
# static identity
docs = [
 '<a  b = "1"   c=\'2\' d=3 e >x</a >',
 '<A HREF="x">t</A>',
 '<br/>', '<br />', '<br>', '<p>unclosed',
 '<!DOCTYPE html>\n<html></html>',
 '<?xml version="1.0"?>\n<a/>',
 '<?php echo 1 ?>',
 '<!-- c -->', '<![CDATA[ <x> ]]>',
 '&amp; &lt; &#38; &nosuch; &',
 'a $ b { c } $x $1 $',
 '<a b="$"/>', '<a b="$x"/>',
 'x\r\ny\rz',
 '<a\n  b="1"\n  c="2"\n/>',
 '<a b="1" b="2"/>',
 '<a b=\'"\' c="\'"/>',
 '<a 1b="x"/>', '<a b="1"c="2"/>',
 '<a b="x>y"/>', "<a b='<'/>",
 '<a b=x/>', '<a b=x/y>', '<a b=x />',
 '< a>', '<>', '<a', '<a b="', '</a>x'[:0]+'x</a',
 '<a:b xmlns:a="u"/>', '<a xmlns="u" xmlns:q="v" q:z="1"/>',
 '<a @click="x" :b="y" v-on:click="z"/>',
 '<p>é中</p>', '<é é="é"/>',
 '<script>if (a<b && c>d) {}</script>',
 '<a b="1"/ >', '<a / >', '<a b = "1"/>',
 '<a\tb="1"\r\n>x</a\n>',
 '<!DOCTYPE html PUBLIC "-//W3C//DTD XHTML 1.0//EN" "http://x" [ <!ENTITY a "b"> ]>',
 '<!-->', '<!--->', '<!---->', '<!-- a -- b -->', '<!--a--->',
 '<![CDATA[]]>', '<![CDATA[ ]] ]]>', '<?x?>', '<? x ?>', '<?xml?>',
 '<a b>', '<a b c="1">', '<a b= c>', '<a b=>',
]
for d in docs:
    try:
        out = PageTemplate(d)()
        flag = 'OK ' if out == d.replace('\r\n','\n').replace('\r','\n') else 'DIFF'
        print(flag, repr(d), '->' , repr(out) if flag=='DIFF' else '')
    except TemplateError as e:
        print('TERR', repr(d), type(e).__name__, str(e).splitlines()[0])
    except Exception as e:
        print('EXC ', repr(d), type(e).__name__, e)

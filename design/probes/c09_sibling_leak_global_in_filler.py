from chameleon import PageTemplate
lib = PageTemplate('''<div metal:define-macro="plain">P</div><div metal:define-macro="n">N[<p metal:define-slot="b">dB</p>]</div><div metal:define-macro="g">G<p metal:define-slot="s">ds</p>[${gv|'undef'}]</div>''')
print(PageTemplate('<x metal:use-macro="lib.macros.plain"><i metal:fill-slot="b">LEAK</i></x>|<x metal:use-macro="lib.macros.n"/>')(lib=lib))
print(PageTemplate('<y tal:repeat="k [1,2]"><x metal:use-macro="lib.macros.plain"><i metal:fill-slot="b">LEAK${k}</i></x>|<x metal:use-macro="lib.macros.n"/></y>')(lib=lib))
print(PageTemplate('<x metal:use-macro="lib.macros.g"><i metal:fill-slot="s" tal:define="global gv 7">f${gv}</i></x>after:${gv|"undef"}')(lib=lib))

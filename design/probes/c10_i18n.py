from chameleon import PageTemplate
def r(src, **kw):
    cfg = kw.pop('cfg', {})
    try:
        out = PageTemplate(src, **cfg)(**kw)
        print(repr(src), '->', repr(out))
    except Exception as e:
        print(repr(src), 'EXC', type(e).__name__, str(e).splitlines()[0])
log=[]
def tr(msgid, **kw):
    log.append((msgid, tuple(sorted((k, v) for k,v in kw.items() if v is not None))))
    return 'T(%s)' % msgid
def t(src, **kw):
    log.clear()
    r(src, translate=tr, **kw)
    for l in log: print('    ', l)
t('<p i18n:translate="">  Hello   <b i18n:name="who" tal:content="w">x</b>  !\n </p>', w='W')
t('<p i18n:translate="id1">Hello</p>')
t('<p i18n:translate=""></p>')
t('<p i18n:translate="">  </p>')
t('<p i18n:translate="" tal:content="w">x</p>', w='W')
t('<p i18n:translate="" tal:content="w">x</p>', w=None)
t('<p i18n:domain="d" i18n:context="c" i18n:target="string:de"><i i18n:translate="">a</i><i i18n:domain="e" i18n:translate="">b</i></p><i i18n:translate="">c</i>')
t('<p i18n:translate="">a<i i18n:translate="">b</i>c</p>')
t('<p i18n:translate="">a<i i18n:name="n" i18n:translate="">b</i>c</p>')
t('<p i18n:translate="">a<i i18n:name="n" tal:repeat="x [1,2]">${x}</i>c</p>')
t('<p i18n:translate="">a<i i18n:name="n" tal:condition="0">b</i>c</p>')
t('<p i18n:translate="">a<i i18n:name="n"/>b<i i18n:name="n"/></p>')
t('<p><i i18n:name="n"/></p>')
t('<p title="x" alt="y" i18n:attributes="title; alt aid">z</p>')
t('<p title="x" tal:attributes="title w" i18n:attributes="title">z</p>', w='W')
t('<p title="a ${w}" i18n:attributes="title">z</p>', w='W')
t('<p title="x">z</p>', cfg=dict(implicit_i18n_attributes={'title'}))
t('<p title="x ${w}">z ${w}</p>', cfg=dict(implicit_i18n_attributes={'title'}, implicit_i18n_translate=True), w='W')
t('<p>  z  y </p>', cfg=dict(implicit_i18n_translate=True))
class Msg:
    def __str__(self): return 'msg'
t('<p>${m}</p><p tal:content="m"/><p a="${m}" tal:attributes="b m"/>', m=Msg())
t('<div metal:define-macro="m" i18n:domain="md"><i i18n:translate="">in</i><b metal:define-slot="s"/></div><div i18n:domain="cd"><div metal:use-macro="macros.m"><b metal:fill-slot="s" i18n:translate="">fill</b></div></div>')

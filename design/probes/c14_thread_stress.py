import sys, threading, tempfile, os, time
sys.setswitchinterval(1e-6)
from chameleon import PageTemplateFile, PageTemplateLoader, PageTemplate
d = tempfile.mkdtemp()
open(os.path.join(d, 'lib.pt'), 'w').write('<div metal:define-macro="m">M<p metal:define-slot="s">d</p>${v}</div>')
open(os.path.join(d, 'main.pt'), 'w').write('<html tal:define="lib load: lib.pt"><x metal:use-macro="lib.macros.m"><i metal:fill-slot="s" tal:repeat="k range(3)">${k}${v}</i></x><b tal:define="global g v">${g}</b>${g}</html>')
errors = []; results = {}
def run(trial):
    loader = PageTemplateLoader(d, auto_reload=(trial % 2 == 0))
    barrier = threading.Barrier(8)
    outs = [None]*8
    def work(i):
        try:
            barrier.wait()
            t = loader['main.pt']
            outs[i] = t(v=i)
        except BaseException as e:
            errors.append((trial, i, type(e).__name__, str(e)[:200]))
    ths = [threading.Thread(target=work, args=(i,)) for i in range(8)]
    [t.start() for t in ths]; [t.join() for t in ths]
    for i, o in enumerate(outs):
        exp = '<html><div>M<i>0%d</i>\n<i>1%d</i>\n<i>2%d</i>%d</div><b>%d</b>%d</html>' % (i,i,i,i,i,i)
        if o is not None and o != exp: errors.append((trial, i, 'WRONG', o))
for trial in range(150): run(trial)
print('errors', len(errors)); print(errors[:5])

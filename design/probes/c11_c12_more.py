from chameleon import PageTemplate
from chameleon.exc import TemplateError
def r(src, **kw):
    try: print(repr(src), '->', repr(PageTemplate(src)(**kw)))
    except Exception as e: print(repr(src), 'EXC', type(e).__name__, isinstance(e, TemplateError), '|', str(e).replace('\n', ' / ')[:400])
r('<p tal:content="foo: 1"/>')
r('<p>${lambda: 1}</p>')
r('<p>${x if y else z: 1}</p>')
r('<p tal:define="x "/>')
r('<p tal:content=""/>')
r('<p tal:condition=""/>')
r('<p tal:repeat="x"/>')
r('<p tal:repeat="x y; z w"/>')
r('<p tal:attributes=""/>')
r('<p tal:attributes=";"/>')
r('<p tal:define=";"/>')
m = PageTemplate('<b>${1/0}</b>')
r('<p tal:on-error="string:E"><x metal:use-macro="m"/></p> ${undefined_name}', m=m)
r('<p tal:on-error="string:E">${1/0}</p> ${undefined_name}', m=m)

from chameleon import PageTemplate
def r(src, **kw):
    cfg = kw.pop('cfg', {})
    try:
        out = PageTemplate(src, **cfg)(**kw)
        print(repr(src), '->', repr(out))
    except Exception as e:
        print(repr(src), 'EXC', type(e).__name__, str(e).splitlines()[0])
for s in ['${a}${b}', '${a} ${b}', '$${a}', '$$${a}', '$$$${a}', '$$$$${a}', '$ ${a} $', '${a}$', '$${a}${b}', '${ {1:2}[1] }', "${'}'}", "${'{'}", '${"${a}"}', "${'$'}", '${a}}', '{${a}}', '${a}{', '$a ${a}', '${}', '${ }', '$${}', '${a', '${', '}${a}', '${a}}${b}', "${d['k']}", '${a &lt; 3}', '${a &amp;&amp; 1}', '${a if a &gt; 0 else b}', '${a}\n${b}', '${a\n+b}', '\\${a}', '${a | b}', '${nope | b}', '${string:x${a}y}', '${not:a}', '${structure:a}', '${python:a}', '${exists:nope}', '${a}$$${b}', '$${a}$${b}', '$$$', '$$ $$$$ $', '${a}$${b}${a}']:
    r('<p>%s</p>' % s, a=1, b=2, d={'k': 'v'})
r('<p a="${a}${b}" b="$${a}" c="$$" d=\'${"x"}\' e="${\'y\'}"/>', a=1, b=2)
r('<p meta:interpolation="off">${a}<b>${a}</b><i meta:interpolation="on">${a}<u meta:interpolation="false">${a}$$</u></i><!-- ${a} --><![CDATA[${a}]]><q a="${a}"/></p>${a}', a=1)
r('<!--? ${a} $$ --><!-- ${a} $$ --><!--! ${a} -->', a=1)
r('<!-- ${a} -->', a=1, cfg=dict(enable_comment_interpolation=False))
r('<![CDATA[${a} $$ ${"]]>"}]]>', a='<')
r('<?php ${a} ?>', a=1)
r('<!DOCTYPE ${a}>', a=1)
r('<${a}>', a=1)
r('<p ${a}="1"/>', a='z')
r('<p tal:content="string:$a $${a} $$ ${a}$b ${a}"/>', a=1, b=2)
r('<p tal:content="string:$a.b ${a}."/>', a=1, b=2)

from chameleon import PageTemplate
log=[]
def f(k, v=None, exc=None):
    log.append(k)
    if exc: raise exc
    return v if v is not None else k
def r(src, **kw):
    log.clear()
    cfg = kw.pop('cfg', {})
    try:
        out = PageTemplate(src, **cfg)(f=f, **kw)
        print(repr(src), '->', repr(out), log)
    except BaseException as e:
        print(repr(src), 'EXC', type(e).__name__, log)
r('''<p tal:attributes="a f('attr')" tal:omit-tag="f('omit', 0)" tal:content="f('content')" tal:repeat="x f('repeat',[1,2])" tal:condition="f('cond')" tal:define="d f('define')" tal:switch="f('switch')" tal:on-error="f('err')" i18n:target="f('target')">x</p>''')
r('''<div tal:switch="f('sw', 2)"><p tal:case="f('c1', 1)">1</p><p tal:case="f('c2', 2)">2</p><p tal:case="f('c3', 2)">3</p><p tal:case="default">d</p></div>''')
r('''<div tal:switch="f('sw', 5)"><p tal:case="f('c1', 1)">1</p><p tal:case="default">d</p><p tal:case="f('c3', 5)">3</p></div>''')
r('''<div tal:switch="f('sw', 1)"><div><p tal:case="f('c1', 1)">1</p></div><p tal:case="f('c2', 1)">2</p><q tal:switch="f('sw2',1)"><p tal:case="f('c4', 1)">4</p></q><p tal:case="f('c5', 1)">5</p></div>''')
r('''<p tal:switch="f('sw',1)" tal:case="f('c',1)">x</p>''')
r('''<p tal:content="f('c', 'default')">x</p>''', )
r('''<p tal:content="f('c', default)">x</p>''', )
r('''<p tal:replace="f('c', default)" tal:attributes="a f('a')">x</p>''', )
r('''<p tal:replace="f('c')" tal:attributes="a f('a')">x</p>''', )
r('''<p tal:replace="f('c')" tal:omit-tag="f('o')">x</p>''', )
r('''<p tal:omit-tag="f('o',0)">x</p>''', )
r('''<p a="1" tal:attributes="a f('a1'); b f('b1'); f('d', {'a': 2})">x</p>''', )
for E in [AttributeError, NameError, LookupError, KeyError, IndexError, TypeError, ValueError, UnicodeError, ZeroDivisionError, RuntimeError, AssertionError, StopIteration, OSError, Exception, KeyboardInterrupt]:
    r('''${f('a', exc=E) | f('b')}''', E=E('x') if E is not UnicodeError else E('x'))
for E in [AttributeError, NameError, LookupError, KeyError, TypeError, ValueError, ZeroDivisionError]:
    r('''${exists: f('a', exc=E)}''', E=E('x'))
r('''${f('a') | f('b')}''')
r('''${nope | f('b') | f('c')}''')
r('''${string:${nope} | f('b')}''')
r('''${not: nope | f('b', 0)}''')
r('''${python: nope | f('b') }''')
r('''${f('a', exc=E) | python: f('b', exc=E) | string:c}''', E=TypeError())
r('''${'a\\|b'}''')
r('''${len}${len('ab')}<i tal:define="len 3">${len}</i>''')
class O:
    x = 1
    def __getitem__(self, k):
        if k == 'y': return 2
        raise KeyError(k)
class P:
    def __getattr__(self, k): raise AttributeError(k)
    def __getitem__(self, k): raise IndexError(k)
r('''${o.x}${o.y}${o.z | 'Z'}''', o=O())
r('''${o.z}''', o=O())
r('''${p.z}''', p=P())
r('''${d.k}${d.keys is not None}${d.get('k')}''', d={'k': 'v', 'keys': 'shadow'})
